------------------------------ MODULE Adversary ------------------------------
(***************************************************************************)
(* Adversary layer (C14; the fork part of C15 lives in the same harness     *)
(* family).  Attacker M takes part in the script, sees honest data and      *)
(* forwards a tampered copy to an honest victim.  He can rewrite anything   *)
(* in the datum and keep the CID store self-consistent, but can produce a   *)
(* valid signature only for his own results (ideal signatures: a signature  *)
(* of q is valid for a datum iff the bag of results attributed to q in it   *)
(* is exactly a bag q signed under this particle id).                       *)
(*                                                                          *)
(* TLC enumerates the catalogue of tamper operations x target positions x   *)
(* victim states (EmitSpec); the harness applies each to data of an honest   *)
(* base history and runs the victim; TLC validates the records (CheckSpec):  *)
(*   C14a  every result attributed to an honest peer in the victim's new     *)
(*         data is one that peer really produced in the honest history       *)
(*         (same content id, value, tetraplet, arguments);                   *)
(*   C14b  the victim's new data can be re-read by the model interpreter     *)
(*         without a parameter / kind / trace mismatch, i.e. every stored    *)
(*         result sits at an instruction whose tetraplet and arguments it    *)
(*         matches;                                                          *)
(*   decision conformance (reported, not a verdict): the victim rejects in   *)
(*         preparation exactly when the ideal-signature model rejects.       *)
(***************************************************************************)
EXTENDS Props, AirInterp, TLC, Json, IOUtils

Tier == IOEnv.TIER

Ops1 == {"none", "value_inplace", "value_rehash", "tetraplet_fn", "tetraplet_peer_to_m", "arghash",
         "to_failed", "to_stream", "to_sent", "drop_sig", "swap_sig"}
Ops2 == {"relocate", "copy_over", "forge_pending"}
Bases == {"SM1", "SM2", "SM3", "SM5", "SM6", "SM7"}
Pos == 0..7
Case(b, op, i, j, op2, i2, pv, pt, rs) ==
    [family |-> "attack", base |-> b, op |-> op, i |-> i, j |-> j, op2 |-> op2, i2 |-> i2, j2 |-> 0,
     prev |-> pv, particle |-> pt, resign |-> rs]
Singles ==
    {Case(b, op, i, 0, "none", 0, pv, "same", rs) : b \in Bases, op \in Ops1, i \in Pos, pv \in {"empty", "honest", "fork"}, rs \in BOOLEAN}
    \cup {Case(b, op, i, j, "none", 0, pv, "same", TRUE) : b \in Bases, op \in Ops2, i \in Pos, j \in Pos, pv \in {"empty", "honest"}}
    \cup {Case(b, "none", 0, 0, "none", 0, pv, "other", rs) : b \in Bases, pv \in {"empty", "honest"}, rs \in BOOLEAN}
Pairs ==
    {Case(b, op, i, j, op2, i2, "empty", "same", TRUE) :
        b \in Bases, op \in (Ops1 \cup Ops2) \ {"none"}, i \in 0..5, j \in {0, 2, 4}, op2 \in Ops1 \ {"none"}, i2 \in 0..5}
\* C01: structural attacks on everything no signature covers (sizes, positions, generations, lore, store
\* entries referenced from the trace, raw values of the attacker's own results, state kinds), single and paired
CrashOps == {"par_sizes", "par_both", "generation", "ap_gens_shape", "lore", "drop_store_entry", "raw_not_json", "kind_swap",
             "truncate", "duplicate_state", "lcid", "to_sent", "to_failed", "to_stream", "copy_over", "relocate"}
CrashBases == {"SM1", "SM2", "SM3", "SM4"}
CrashSingles ==
    {Case(b, op, i, j, "none", 0, pv, "same", TRUE) : b \in CrashBases, op \in CrashOps, i \in 0..9, j \in 0..9, pv \in {"empty", "honest"}}
\* a result copied / moved onto a position whose instruction cannot resolve its arguments at the victim
CrashPairs2 ==
    {[Case(b, op, i, 0, op2, i2, "empty", "same", TRUE) EXCEPT !.j2 = j2] :
        b \in CrashBases, op \in {"to_sent", "drop_store_entry", "kind_swap"}, i \in 0..5, op2 \in {"copy_over", "relocate"}, i2 \in 0..6, j2 \in 0..6}
CrashPairs ==
    {Case(b, op, i, j, op2, i2, "empty", "same", TRUE) :
        b \in CrashBases, op \in {"to_sent", "kind_swap", "truncate", "drop_store_entry"}, i \in 0..7, j \in {0, 1, 4},
        op2 \in {"copy_over", "generation", "lore", "par_sizes", "raw_not_json"}, i2 \in 0..7}
Cases ==
    IF IOEnv.FAMILY = "crash" THEN (IF Tier = "quick" THEN {c \in CrashSingles : c.i <= 7 /\ c.j <= 5}
                                    ELSE CrashSingles \cup CrashPairs \cup CrashPairs2)
    ELSE IF Tier = "quick" THEN Singles ELSE Singles \cup Pairs

\* --------------------------------------------------------------------------- enumeration
VARIABLES cs, l
EmitInit == cs \in Cases /\ l = 0
EmitNext == FALSE /\ UNCHANGED <<cs, l>>
EmitSpec == EmitInit /\ [][EmitNext]_<<cs, l>>
EmitCase == PrintT(<<"CASE", ToJson(cs)>>)

\* --------------------------------------------------------------------------- validation
Rec == ndJsonDeserialize(IOEnv.TRACE)
Honest(q) == q \notin {"M", "", "!"}

StripC(s) == s
ResultStates(tr) == {tr[i] : i \in {j \in Indices(tr) : IsResult(tr[j]) /\ ~(tr[j].k = "exec" /\ tr[j].vt = "unused")}}
\* generation numbers may be renumbered by an honest merge: compare stream results without them
NoGen(s) == IF s.k = "exec" THEN [s EXCEPT !.g = 0] ELSE s

C14a(r) ==
    ReturnsNewData(r.out.code) =>
        \A s \in ResultStates(r.out.data.trace) :
            Honest(s.p) => NoGen(s) \in {NoGen(h) : h \in SeqToSet(r.honest_states)}

Reread(r) == Interp(r.script, "B", "A", r.out.data, EmptyData, {})
C14b(r) ==
    ReturnsNewData(r.out.code) =>
        LET m == Reread(r) IN m.unsup \/ m.code \notin {U_ParamsMismatch, U_ResultNotCorrespond, U_Trace, -1}

\* ideal-signature decision.  A signature covers the *bag of content ids* attributed to the signer (not the
\* kinds of the states that carry them).  The bag attributed to every honest peer must be a bag that peer
\* signed (the one in the datum M received), the store must be consistent, the particle id the same; and
\* against the victim's previous data the per-peer bags must be nested (C15).
SigOk(r, q) == \E i \in 1..Len(r.tampered.sig) : r.tampered.sig[i].n = q /\ r.tampered.sig[i].present
Touched(r, q) == ~BagEq(CidBag(r.tampered.data.trace, q), CidBag(r.orig.trace, q))
ModelRejectsInPrep(r) ==
    \/ ~r.tampered.store_ok
    \/ r.case.particle = "other"
    \* exchanging the signatures of A and M twice restores them: they are exchanged iff exactly one swap was applied
    \/ (r.case.op = "swap_sig") # (r.case.op2 = "swap_sig")
    \/ \E q \in AttributedPeers(r.tampered.data.trace) \cup AttributedPeers(r.orig.trace) :
          \/ (q \in AttributedPeers(r.tampered.data.trace) /\ ~SigOk(r, q))
          \/ (SigOk(r, q) /\ Honest(q) /\ Touched(r, q))
          \/ (SigOk(r, q) /\ q = "M" /\ ~r.case.resign /\ Touched(r, q))
    \/ \E q \in AttributedPeers(r.tampered.data.trace) \cap AttributedPeers(r.prev.trace) :
          ~Nested(CidBag(r.tampered.data.trace, q), CidBag(r.prev.trace, q))

\* C15 (fork part): previous and current data carry for some peer result bags where neither contains the
\* other  =>  rejected in preparation, previous data returned
Incomparable(r) ==
    \E q \in AttributedPeers(r.tampered.data.trace) \cap AttributedPeers(r.prev.trace) :
        ~Nested(CidBag(r.tampered.data.trace, q), CidBag(r.prev.trace, q))
C15a(r) == Incomparable(r) => (Class(r.out.code) = "prep" /\ r.out.eqprev /\ r.out.nnext = 0)
\* otherwise a run that returns new data keeps what the victim already held, and holds for every other peer nothing
\* beyond the larger of the two versions (what the victim's execution does not reach in the incoming data - the
\* attacker may have cut his own results off behind a pending mark - is legitimately absent)
MaxCount(b1, b2, c) ==
    LET n1 == IF c \in DOMAIN b1 THEN b1[c] ELSE 0  n2 == IF c \in DOMAIN b2 THEN b2[c] ELSE 0 IN IF n1 >= n2 THEN n1 ELSE n2
C15b(r) ==
    (~Incomparable(r) /\ ReturnsNewData(r.out.code)) =>
        \A q \in AttributedPeers(r.tampered.data.trace) \cup AttributedPeers(r.prev.trace) \cup AttributedPeers(r.out.data.trace) :
            /\ BagSubset(CidBag(r.prev.trace, q), CidBag(r.out.data.trace, q))
            /\ (q # "B" =>
                  LET o == CidBag(r.out.data.trace, q) IN
                  \A c \in DOMAIN o : o[c] <= MaxCount(CidBag(r.prev.trace, q), CidBag(r.tampered.data.trace, q), c))

CheckInit == cs = [family |-> "none"] /\ l = 1
CheckNext == l <= Len(Rec) /\ l' = l + 1 /\ cs' = Rec[l].case
CheckSpec == CheckInit /\ [][CheckNext]_<<cs, l>>
LastR == Rec[l - 1]
CheckC14 ==
    (l > 1 /\ LastR.applicable /\ LastR.out.died = "") =>
        ((C14a(LastR) /\ C14b(LastR)) \/ PrintT(<<"VIOLATION", "C14", LastR.n, 0>>))
CheckC15 ==
    (l > 1 /\ LastR.applicable /\ LastR.out.died = "") =>
        ((C15a(LastR) /\ C15b(LastR)) \/ PrintT(<<"VIOLATION", "C15", LastR.n, 0>>))
\* a crash of the victim on tampered input is C01's business; it is reported there
CheckC01 ==
    (l > 1 /\ LastR.applicable) => (LastR.out.died = "" \/ PrintT(<<"VIOLATION", "C01", LastR.n, 0>>))
CheckDecision ==
    (l > 1 /\ LastR.applicable /\ LastR.out.died = "") =>
        LET implPrep == Class(LastR.out.code) = "prep" IN
        IF implPrep = ModelRejectsInPrep(LastR) THEN PrintT(<<"DECISION", "agree", LastR.n>>)
        ELSE PrintT(<<"DECISION", "differ", LastR.n, LastR.out.code>>)
AllExecuted ==
    LET d == TLCGet("stats").diameter IN
    IF d - 1 = Len(Rec) /\ {Rec[i].case : i \in 1..Len(Rec)} = Cases THEN TRUE
    ELSE Print(<<"TRACE-REJECTED", d, Len(Rec), Cardinality(Cases)>>, FALSE)
=============================================================================
