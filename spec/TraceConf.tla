----------------------------- MODULE TraceConf -----------------------------
(***************************************************************************)
(* Full conformance of the interpreter layer: for every run recorded from   *)
(* the real code, the model interpreter AirInterp!Interp is evaluated on    *)
(* the logged inputs (stored previous data, referenced current data, host   *)
(* results) and its outcome compared with the logged one.  A disagreement   *)
(* is *drift* - it demonstrates how tightly the specification is bound to   *)
(* this code, and is never by itself a verdict about a property (DESIGN.md   *)
(* section 5); inputs outside the modelled fragment are "unsupported".       *)
(***************************************************************************)
EXTENDS TraceNet, AirInterp

StripCid(s) ==
    IF s.k = "exec" THEN [s EXCEPT !.c = "", !.sn = ""]
    ELSE IF s.k = "failed" THEN [s EXCEPT !.c = ""]
    ELSE IF s.k = "cexec" THEN [s EXCEPT !.c = "", !.vals = [i \in 1..Len(s.vals) |-> [s.vals[i] EXCEPT !.provc = ""]]]
    ELSE s
StripTrace(tr) == [i \in 1..Len(tr) |-> StripCid(tr[i])]

ResultSet(e) == {[id |-> e.res[i].id, rc |-> e.res[i].rc, v |-> e.res[i].v, body |-> e.res[i].body] : i \in 1..Len(e.res)}

ModelOutcome(s, e) ==
    Interp(s.script, e.peer, s.init, s.store[e.peer], CurData(s, e.cur), ResultSet(e))

ReqCore(r) == [id |-> r.id, srv |-> r.srv, fn |-> r.fn, args |-> r.args, tets |-> r.tets]
ReqsCore(q) == [i \in 1..Len(q) |-> ReqCore(q[i])]

\* first component that differs ("" when the outcomes agree)
Diff(m, o) ==
    IF m.code # o.code THEN "code"
    ELSE IF Class(o.code) \in {"prep", "uncatch"} THEN ""
    ELSE IF StripTrace(m.data.trace) # StripTrace(o.data.trace) THEN "trace"
    ELSE IF m.data.lcid # o.data.lcid THEN "lcid"
    ELSE IF m.data.sigs # o.data.sigs THEN "sigs"
    ELSE IF m.next # o.next THEN "next"
    ELSE IF ReqsCore(m.reqs) # ReqsCore(o.reqs) THEN "reqs"
    ELSE ""

\* C04 with the known finding classified by the model: a consistency error of a run that the model
\* reproduces (same code) and in which a call's arguments failed while a call state was waiting unconsumed
InvC04K ==
    (IsRun => (C04(pre, Last) \/
               LET m == ModelOutcome(pre, Last) IN
               IF ~m.unsup /\ m.code = Last.out.code /\ m.kf1
               THEN PrintT(<<"VIOLATION", "C04", Last.hid, Last.step, "args-failed-after-sent">>)
               ELSE PrintT(<<"VIOLATION", "C04", Last.hid, Last.step>>)))
    /\ (IsObs => Report("C04", C04obs(Last)))

\* C19c with the model as annotator: when the model reads the produced trace exactly as the code wrote it,
\* every peer the model forwards to (it does so exactly when it newly marks a call as sent to that peer)
\* must be among the implementation's next peers
InvC19c ==
    IsRun =>
        LET e == Last  m == ModelOutcome(pre, e) IN
        (~m.unsup /\ e.out.died = "" /\ m.code = e.out.code /\ ReturnsNewData(e.out.code)
            /\ StripTrace(m.data.trace) = StripTrace(e.out.data.trace)) =>
            Report("C19", SetOf(m.next) \subseteq SetOf(e.out.next))

\* ---- projections for the stream properties (oracle: the model's streams)
SupportedRun(m, e) == ~m.unsup /\ e.out.died = "" /\ m.code = e.out.code /\ ReturnsNewData(e.out.code)
SeqBag(q) == LET ks == {q[i] : i \in 1..Len(q)} IN [k \in ks |-> Cardinality({i \in 1..Len(q) : q[i] = k})]
Canons(tr) == SelectSeq(StripTrace(tr), LAMBDA s : s.k = "cexec")
ReqKeys(q) == [i \in 1..Len(q) |-> <<q[i].srv, q[i].fn, q[i].args>>]
\* C11: the canonical values fixed in this run are exactly what the designated peer's streams hold according to the
\* model (same elements, same order), and canon results carried over are unchanged
InvC11 ==
    IsRun =>
        LET e == Last  m == ModelOutcome(pre, e) IN
        /\ Report("C11", C11order(pre, e))
        /\ (SupportedRun(m, e) => Report("C11", Canons(m.data.trace) = Canons(e.out.data.trace)))
        \* the value bound to a canon variable is observable through the arguments of the calls that read it: the requests
        \* issued in this run carry the arguments the model computes from the recorded canonical value ...
        /\ ((SupportedRun(m, e) /\ "canon" \in aux.feats) => Report("C11", ReqKeys(m.reqs) = ReqKeys(e.out.reqs)))
        \* ... and a call recorded earlier with arguments read from a canon variable is re-traversed with the same arguments:
        \* in an honest history InstructionParametersMismatch (20017) means a peer bound another value than the recorded one
        /\ (("canon" \in aux.feats /\ e.out.died = "") => Report("C11", e.out.code # 20017))
\* C13: the streams hold exactly the merged appends (seen through the local canons) and the stream folds visit each
\* value once (seen through the requests issued from fold bodies): both as bags against the model
InvC13 ==
    IsRun =>
        LET e == Last  m == ModelOutcome(pre, e) IN
        SupportedRun(m, e) =>
            Report("C13", /\ SeqBag(Canons(m.data.trace)) = SeqBag(Canons(e.out.data.trace))
                          /\ SeqBag(ReqKeys(m.reqs)) = SeqBag(ReqKeys(e.out.reqs))
                          /\ Cardinality({i \in 1..Len(m.data.trace) : m.data.trace[i].k \in {"ap", "exec"}})
                             = Cardinality({i \in 1..Len(e.out.data.trace) : e.out.data.trace[i].k \in {"ap", "exec"}}))
\* C13 on the model's own streams (the model reproduces the code run by run): no stream fold of this run ended
\* without an iteration for a value its stream held (AirInterp!ExecFoldStream)
InvC13model ==
    IsRun =>
        LET e == Last  m == ModelOutcome(pre, e) IN
        (SupportedRun(m, e) /\ Diff(m, e.out) = "") => Report("C13", m.c13 = <<>>)
\* C17 beyond the sequential fragment (streams, canons, maps): the tetraplets handed to the host with every request are
\* the ones the model computes (element by element for canon arguments)
InvC17model ==
    IsRun =>
        LET e == Last  m == ModelOutcome(pre, e) IN
        (SupportedRun(m, e) /\ ReqKeys(m.reqs) = ReqKeys(e.out.reqs)) =>
            Report("C17", [i \in 1..Len(m.reqs) |-> m.reqs[i].tets] = [i \in 1..Len(e.out.reqs) |-> e.out.reqs[i].tets])
\* C12: relative generation order of the stream values, against the previous data of the peer (model-free) and
\* against the model (same relative order of every pair of stream values, whatever the numbers)
StreamVals(tr) == {i \in 1..Len(tr) : tr[i].k = "exec" /\ tr[i].vt = "stream"}
SameOrder(t1, t2) ==
    Len(t1) = Len(t2) =>
        \A i, j \in StreamVals(t1) :
            (i \in StreamVals(t2) /\ j \in StreamVals(t2)) => ((t1[i].g < t1[j].g) = (t2[i].g < t2[j].g))
InvC12 ==
    IsRun =>
        LET e == Last  m == ModelOutcome(pre, e) IN
        /\ Report("C12", "new_stream" \in aux.feats \/ C12(pre, e))
        /\ ((SupportedRun(m, e) /\ StripTrace([i \in 1..Len(m.data.trace) |-> IF m.data.trace[i].k = "exec" THEN [m.data.trace[i] EXCEPT !.g = 0] ELSE m.data.trace[i]])
                               = StripTrace([i \in 1..Len(e.out.data.trace) |-> IF e.out.data.trace[i].k = "exec" THEN [e.out.data.trace[i] EXCEPT !.g = 0] ELSE e.out.data.trace[i]]))
              => Report("C12", SameOrder(m.data.trace, e.out.data.trace)))
        \* the generations written into append states (ap) follow the same rule - values produced in the run after the
        \* ones from the data -; they carry no content to pair them by, so they are compared with the model's numbers
        /\ ((SupportedRun(m, e) /\ Len(m.data.trace) = Len(e.out.data.trace)) =>
              Report("C12", \A i \in 1..Len(m.data.trace) :
                                (m.data.trace[i].k = "ap" /\ e.out.data.trace[i].k = "ap") => m.data.trace[i].gs = e.out.data.trace[i].gs))

\* C18: which failures an xor catches, and what the handler sees in %last_error% / :error:, against the model's
\* error descriptors.  Judged on the run's code when both sides end in success or in a catchable error (or when the
\* model says the run must die of an uncatchable one), and on the arguments of the requests issued.
InvC18 ==
    IsRun =>
        LET e == Last  m == ModelOutcome(pre, e) IN
        (~m.unsup /\ e.out.died = "" /\ "xor" \in aux.feats) =>
            /\ ((Class(m.code) \in {"ok", "catch"} /\ Class(e.out.code) \in {"ok", "catch"}) => Report("C18", m.code = e.out.code))
            /\ ((Class(m.code) = "uncatch" /\ Class(e.out.code) \in {"ok", "catch"}) => Report("C18", FALSE))
            /\ ((m.code = e.out.code /\ ReturnsNewData(e.out.code)) => Report("C18", ReqKeys(m.reqs) = ReqKeys(e.out.reqs)))

InvConf ==
    IsRun =>
        LET e == Last
            m == ModelOutcome(pre, e)
        IN  IF e.out.died # "" THEN PrintT(<<"CONF", "died", e.hid, e.step>>)
            ELSE IF m.unsup THEN PrintT(<<"CONF", "unsupported", e.hid, e.step>>)
            ELSE LET d == Diff(m, e.out) IN
                 IF d = "" THEN PrintT(<<"CONF", "agree", e.hid, e.step>>)
                 ELSE PrintT(<<"CONF", "drift", e.hid, e.step, d, m.code, e.out.code>>)
\* debugging aid: on drift print both traces compactly
Short(s) == IF s.k = "par" THEN <<"par", s.lsz, s.rsz>>
            ELSE IF s.k = "sent" THEN <<"sent", s.by>>
            ELSE IF s.k = "exec" THEN <<"exec", s.vt, s.p, s.f, s.g>>
            ELSE IF s.k = "failed" THEN <<"failed", s.p, s.f>>
            ELSE IF s.k = "ap" THEN <<"ap", s.gs>>
            ELSE IF s.k = "fold" THEN <<"fold", [i \in 1..Len(s.lore) |-> <<s.lore[i].vp, s.lore[i].d>>]>>
            ELSE IF s.k = "cexec" THEN <<"cexec", Len(s.vals)>>
            ELSE <<s.k>>
InvDrift ==
    IsRun =>
        LET e == Last  m == ModelOutcome(pre, e) IN
        (~m.unsup /\ e.out.died = "" /\ Diff(m, e.out) = "trace") =>
            LET a == StripTrace(m.data.trace)  b == StripTrace(e.out.data.trace)
                bad == {i \in 1..Len(a) : i <= Len(b) /\ a[i] # b[i]} IN
            PrintT(<<"DRIFTAT", e.hid, e.step, {<<i, a[i], "IMPL", b[i]>> : i \in bad}>>) /\
            PrintT(<<"DRIFT", e.hid, e.step, [i \in 1..Len(m.data.trace) |-> Short(m.data.trace[i])], "IMPL", [i \in 1..Len(e.out.data.trace) |-> Short(e.out.data.trace[i])]>>)
=============================================================================
