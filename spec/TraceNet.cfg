SPECIFICATION Spec
CHECK_DEADLOCK FALSE
POSTCONDITION TraceAccepted
INVARIANT InvC02
INVARIANT InvC03
INVARIANT InvC04
INVARIANT InvC05
INVARIANT InvC06
INVARIANT InvC07
INVARIANT InvC08
INVARIANT InvC09
INVARIANT InvC10
INVARIANT InvC19
INVARIANT InvC20
INVARIANT InvC27
