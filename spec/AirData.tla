------------------------------ MODULE AirData ------------------------------
(***************************************************************************)
(* Abstract interpreter data as the specification sees it: the flat trace   *)
(* with every content id resolved to the content it addresses, lcid, and    *)
(* the set of signers.  Mirrors crates/air-lib/interpreter-data.            *)
(*                                                                          *)
(* A trace state is a record whose field k names its kind:                  *)
(*   [k |-> "par", lsz, rsz]                                                    *)
(*   [k |-> "sent", by, id]          call: RequestSentBy (id = -1: no id)   *)
(*   [k |-> "exec", vt, c, g, v, p, s, f, lens, ah]   call: Executed        *)
(*   [k |-> "failed", c, v, p, s, f, lens, ah]        call: Failed          *)
(*   [k |-> "ap", gs]                                                       *)
(*   [k |-> "fold", lore]   lore: Seq([vp, d: Seq(<<pos,len>>)])            *)
(*   [k |-> "csent", by]             canon: RequestSentBy                   *)
(*   [k |-> "cexec", c, p, s, f, lens, vals]          canon: Executed       *)
(* Positions inside lore are 0-based as in the data.                        *)
(***************************************************************************)
EXTENDS Naturals, Integers, Sequences, FiniteSets

EmptyData == [trace |-> <<>>, lcid |-> 0, sigs |-> <<>>]

StubGeneration == -2       \* the projector's rendering of 0xCAFEBABE
IsNat(x) == x >= 0

IsResult(s) == s.k \in {"exec", "failed", "cexec"}
IsPending(s) == s.k \in {"sent", "csent"}

\* identity of a result by content id (C08, C09: "identified by content id")
ResultKey(s) == <<s.k, s.c>>

Indices(tr) == 1..Len(tr)

ResultKeys(tr) == {ResultKey(tr[i]) : i \in {j \in Indices(tr) : IsResult(tr[j])}}

CountKey(tr, key) == Cardinality({i \in Indices(tr) : IsResult(tr[i]) /\ ResultKey(tr[i]) = key})

\* bag (multiset) of results of a trace, as a function key -> count
Results(tr) == [key \in ResultKeys(tr) |-> CountKey(tr, key)]

BagSubset(b1, b2) == \A key \in DOMAIN b1 : key \in DOMAIN b2 /\ b1[key] <= b2[key]
BagEq(b1, b2) == BagSubset(b1, b2) /\ BagSubset(b2, b1)

\* results attributed to peer q (what q's signature covers): executed (not unused) and failed calls with
\* q's tetraplet, executed canons with q's tetraplet
AttributedIdx(tr, q) ==
    {i \in Indices(tr) :
        \/ (tr[i].k = "exec" /\ tr[i].vt # "unused" /\ tr[i].p = q)
        \/ (tr[i].k = "failed" /\ tr[i].p = q)
        \/ (tr[i].k = "cexec" /\ tr[i].p = q)}
AttributedKeys(tr, q) == {ResultKey(tr[i]) : i \in AttributedIdx(tr, q)}
Attributed(tr, q) ==
    [key \in AttributedKeys(tr, q) |-> Cardinality({i \in AttributedIdx(tr, q) : ResultKey(tr[i]) = key})]
\* what a signature covers: the bag of content ids attributed to the signer
CidBag(tr, q) ==
    LET idx == AttributedIdx(tr, q)  cids == {tr[i].c : i \in idx} IN
    [c \in cids |-> Cardinality({i \in idx : tr[i].c = c})]
BagSize(b) ==
    LET RECURSIVE Sum(_)
        Sum(S) == IF S = {} THEN 0 ELSE LET x == CHOOSE y \in S : TRUE IN b[x] + Sum(S \ {x})
    IN Sum(DOMAIN b)
\* the rule of verification.rs merge: the larger bag wins, the smaller must be contained in it
Nested(a, b) == IF BagSize(a) <= BagSize(b) THEN BagSubset(a, b) ELSE BagSubset(b, a)

AttributedPeers(tr) ==
    {tr[i].p : i \in {j \in Indices(tr) : IsResult(tr[j]) /\ ~(tr[j].k = "exec" /\ tr[j].vt = "unused")}}

(***************************************************************************)
(* Structural well-formedness (C10), written independently of the          *)
(* interpreter: a recursive-descent reading of the flat trace.             *)
(***************************************************************************)
SumLens(lore) ==
    LET RECURSIVE SumD(_, _)
        SumD(d, j) == IF j > Len(d) THEN 0 ELSE (IF d[j][2] > 0 THEN d[j][2] ELSE 0) + SumD(d, j + 1)
        RECURSIVE SumL(_)
        SumL(j) == IF j > Len(lore) THEN 0 ELSE SumD(lore[j].d, 1) + SumL(j + 1)
    IN SumL(1)

\* all (pos,len) intervals of a lore, as a set of <<entry, descriptor, pos, len>>
Intervals(lore) ==
    UNION {{<<j, m, lore[j].d[m][1], lore[j].d[m][2]>> : m \in 1..Len(lore[j].d)} : j \in 1..Len(lore)}

RECURSIVE NodeEnd(_, _, _)
RECURSIVE BlockOK(_, _, _)

\* tr: trace; i: 1-based index of the node's first entry; limit: one past the last index the node may use.
\* Returns the index just after the node, or 0 when malformed.
NodeEnd(tr, i, limit) ==
    IF i >= limit \/ i < 1 THEN 0 ELSE
    LET s == tr[i] IN
    IF s.k = "par" THEN
        IF s.lsz < 0 \/ s.rsz < 0 \/ i + s.lsz + s.rsz >= limit THEN 0
        ELSE IF BlockOK(tr, i + 1, i + 1 + s.lsz) /\ BlockOK(tr, i + 1 + s.lsz, i + 1 + s.lsz + s.rsz)
             THEN i + 1 + s.lsz + s.rsz ELSE 0
    ELSE IF s.k = "fold" THEN
        LET tot == SumLens(s.lore)
            first == i            \* 0-based position of the first entry after the fold = (i - 1) + 1
            iv == Intervals(s.lore)
            pos == {x \in iv : x[4] > 0}
        IN  IF i + tot >= limit THEN 0
            ELSE IF \E x \in iv : x[3] < 0 \/ x[4] < 0 THEN 0
            \* every interval inside the fold's own range (an empty one still has to sit in it, not before the fold)
            ELSE IF \E x \in iv : x[3] < first \/ x[3] + x[4] > first + tot THEN 0
            \* pairwise disjoint (with the total length equal to the range this means: a partition)
            ELSE IF \E x, y \in pos : (x[1] # y[1] \/ x[2] # y[2]) /\ x[3] < y[3] + y[4] /\ y[3] < x[3] + x[4] THEN 0
            \* nested entries stay inside the fold's range and are whole nodes
            ELSE IF ~BlockOK(tr, i + 1, i + 1 + tot) THEN 0
            ELSE i + 1 + tot
    ELSE i + 1

BlockOK(tr, i, j) ==
    IF i = j THEN TRUE
    ELSE IF i > j THEN FALSE
    ELSE LET e == NodeEnd(tr, i, j) IN e # 0 /\ BlockOK(tr, e, j)

ParFoldWF(tr) == BlockOK(tr, 1, Len(tr) + 1)

\* every fold iteration points to an earlier stream value entry: earlier than the iteration's own
\* entries (with a recursive stream the value may have been produced inside the same fold, i.e. after
\* the fold entry itself, but always before the iteration that consumes it)
LoreTargetsWF(tr) ==
    \A i \in Indices(tr) : tr[i].k = "fold" =>
        \A j \in 1..Len(tr[i].lore) :
            LET vp == tr[i].lore[j].vp  d == tr[i].lore[j].d IN
            /\ vp >= 0 /\ vp < Len(tr) /\ vp + 1 # i
            /\ \A m \in 1..Len(d) : vp < d[m][1]
            /\ LET t == tr[vp + 1] IN t.k = "ap" \/ (t.k = "exec" /\ t.vt = "stream")

\* every stream value entry carries a real generation
GenerationsWF(tr) ==
    \A i \in Indices(tr) :
        /\ (tr[i].k = "exec" /\ tr[i].vt = "stream") => tr[i].g >= 0
        /\ tr[i].k = "ap" => \A j \in 1..Len(tr[i].gs) : tr[i].gs[j] >= 0

KindsWF(tr) == \A i \in Indices(tr) : tr[i].k \notin {"dangling", "unknown"}

WF(tr) == KindsWF(tr) /\ ParFoldWF(tr) /\ LoreTargetsWF(tr) /\ GenerationsWF(tr)

(***************************************************************************)
(* Equivalences used by C08.                                                *)
(***************************************************************************)
\* who sent a pending request does not matter
MaskSender(s) ==
    IF s.k = "sent" THEN [k |-> "sent"]
    ELSE IF s.k = "csent" THEN [k |-> "csent"]
    ELSE s
MaskSenders(tr) == [i \in Indices(tr) |-> MaskSender(tr[i])]
EquivModuloSenders(t1, t2) == MaskSenders(t1) = MaskSenders(t2)

HasStreams(tr) == \E i \in Indices(tr) : tr[i].k \in {"ap", "fold"} \/ (tr[i].k = "exec" /\ tr[i].vt = "stream")

PendingCount(tr) == Cardinality({i \in Indices(tr) : IsPending(tr[i])})

=============================================================================
