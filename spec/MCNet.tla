------------------------------- MODULE MCNet -------------------------------
(***************************************************************************)
(* Design specification instance: the protocol layer AquaNet with the       *)
(* interpreter run instantiated by the model interpreter AirInterp!Interp.  *)
(* TLC explores every schedule (any wanted message at any time, up to       *)
(* MaxDeliveries times each; host results returned in any subset, alone or  *)
(* together with a particle; results under ids nobody asked for) of one     *)
(* script within MaxRuns interpreter runs, and checks the property          *)
(* operators of Props on every transition.                                  *)
(*                                                                          *)
(* The properties are about transitions (a step and the state before it),   *)
(* so each step computes the set `viol` of property ids it violates; the    *)
(* invariant is viol = {}.  `hist` (the schedule so far) is only used to    *)
(* emit behaviours for replay on the real code and is hidden by the VIEW    *)
(* in the exhaustive run.                                                   *)
(***************************************************************************)
EXTENDS Props, AirInterp, SeqSem, ScriptGen, TLC, Json, IOUtils

CONSTANTS MaxRuns, MaxDeliveries, MaxBogus,
          CheckIds        \* the property ids checked on every transition

\* the scripts explored: one catalogue entry {script, init, peers, ...} when SCRIPT names a file, otherwise the generated
\* family ScriptGen!Family(GEN_K, GEN_LEVEL) restricted to the index window GEN_FROM..GEN_TO (one initial state per script)
GenK == atoi(IOEnv.GEN_K)
GenLevel == atoi(IOEnv.GEN_LEVEL)
GenAll == Family(GenK, GenLevel)
GenFrom == IF "GEN_FROM" \in DOMAIN IOEnv THEN atoi(IOEnv.GEN_FROM) ELSE 1
GenTo == IF "GEN_TO" \in DOMAIN IOEnv THEN atoi(IOEnv.GEN_TO) ELSE Len(GenAll)
Entries ==
    IF "SCRIPT" \in DOMAIN IOEnv THEN <<JsonDeserialize(IOEnv.SCRIPT)>>
    ELSE [i \in 1..Len(GenAll) |-> EntryOf(GenAll[i], GenLevel)]
EntryIdx == IF "SCRIPT" \in DOMAIN IOEnv THEN {1} ELSE {i \in 1..Len(GenAll) : i >= GenFrom /\ i <= GenTo}

VARIABLES st, dl, nbogus, viol, hist, sid
vars == <<st, dl, nbogus, viol, hist, sid>>
View == <<st, dl, nbogus, viol, sid>>

Script == st.script
InitPeer == st.init
Peers == st.names

Init ==
    /\ \E i \in EntryIdx :
        /\ sid = i
        /\ st = InitState(Entries[i].script, SeqToSet(Entries[i].peers), Entries[i].init)
    /\ dl = <<>>
    /\ nbogus = 0
    /\ viol = {}
    /\ hist = <<>>

\* ---------------------------------------------------------------------------
\* one step in the shape of a recorded `run` event, so that Props applies unchanged
RECURSIVE SortedIds(_)
SortedIds(S) == IF S = {} THEN <<>> ELSE LET m == CHOOSE x \in S : \A y \in S : x <= y IN <<m>> \o SortedIds(S \ {m})
ResOf(p, r) ==
    LET sv == Service(r.srv, r.fn, r.args) IN
    [id |-> r.id, rc |-> sv.rc, v |-> sv.v, srv |-> r.srv, fn |-> r.fn,
     body |-> IF sv.body = "" THEN "" ELSE sv.body]
ResSeq(p, S) ==
    LET ids == SortedIds({r.id : r \in S}) IN
    [i \in 1..Len(ids) |-> ResOf(p, CHOOSE r \in S : r.id = ids[i])]
BogusRes(id) == [id |-> id, rc |-> 0, v |-> Str("bogus"), srv |-> "", fn |-> "", body |-> ""]

ResultRecs(resSeq) == {[id |-> resSeq[i].id, rc |-> resSeq[i].rc, v |-> resSeq[i].v, body |-> resSeq[i].body] : i \in 1..Len(resSeq)}

Probe(p, prevData, curData) ==
    LET q == Interp(Script, p, InitPeer, prevData, curData, {}) IN
    [variant |-> "", code |-> q.code, td |-> q.data.trace, nreq |-> Len(q.reqs), nnext |-> Len(q.next), died |-> FALSE]

Event(p, kind, cur, resSeq) ==
    LET prev == st.store[p]
        curData == CurData(st, cur)
        o == Interp(Script, p, InitPeer, prev, curData, ResultRecs(resSeq))
        newData == ReturnsNewData(o.code)
        lastSent == IF Len(st.sent[p]) = 0 THEN EmptyData ELSE st.sent[p][Len(st.sent[p])]
        newver == IF newData /\ (Len(st.sent[p]) = 0 \/ o.data # lastSent) THEN Len(st.sent[p]) + 1 ELSE Len(st.sent[p])
    IN
    [ peer |-> p, kind |-> kind, cur |-> cur, res |-> resSeq, unsup |-> o.unsup,
      out |-> [ code |-> o.code, died |-> "", eqprev |-> (o.data = prev /\ ~newData), decodes |-> TRUE, empty |-> FALSE,
                ver |-> <<0, 64, 1, "">>, data |-> o.data, td |-> o.data.trace, digest |-> o.data,
                next |-> o.next, next_dup |-> FALSE, reqs |-> o.reqs, reqs_ok |-> TRUE, reqsd |-> o.reqs, msgd |-> "",
                flags |-> <<FALSE, FALSE, FALSE>>, store_ok |-> TRUE, refs_ok |-> TRUE, sig |-> <<>>, newver |-> newver, c13 |-> o.c13 ],
      probes |-> [ idem |-> IF o.code = 0
                            THEN << Probe(p, o.data, curData), Probe(p, o.data, prev), Probe(p, o.data, o.data), Probe(p, o.data, EmptyData) >>
                            ELSE <<>>,
                   rerun |-> [done |-> FALSE], rerun_fresh |-> [done |-> FALSE], fresh |-> [done |-> FALSE], recode |-> [done |-> FALSE] ] ]

\* C16 on the design: for scripts of the sequential fragment, everything the stepping peer ever handed to its host is a
\* call of the sequential reading, and the trace it returns follows the sequential trace block by block
MC_Bag(q, key(_)) == LET ks == {key(q[i]) : i \in 1..Len(q)} IN [k \in ks |-> Cardinality({i \in 1..Len(q) : key(q[i]) = k})]
C16model(t, e) ==
    InFragment(Script, FALSE) =>
        LET o == SeqRun(Script, InitPeer) IN
        ~o.stuck =>
            /\ BagSubset(MC_Bag(t.issued[e.peer], LAMBDA r : <<e.peer, r.srv, r.fn, r.args>>),
                         MC_Bag(o.calls, LAMBDA c : <<c.p, c.srv, c.fn, c.args>>))
            /\ (ReturnsNewData(e.out.code) => FollowsSequential(e.out.data.trace, o.tr))

\* the property ids violated by step e taken from state s to state t (model-level reading of Props)
Violations(s, t, e) ==
    {id \in CheckIds \cap {"C02", "C04", "C05", "C06", "C07", "C09", "C10", "C11", "C12", "C13", "C16", "C19"} :
        ~(CASE id = "C02" -> C02(s, e)
            [] id = "C04" -> C04(s, e)
            [] id = "C05" -> C05(s, t, e) /\ C05answered(s, e)
            [] id = "C06" -> C06(s, t, e)
            [] id = "C07" -> C07(s, e)
            [] id = "C09" -> C09(s, e)
            [] id = "C10" -> C10(s, e)
            [] id = "C11" -> C11order(s, e)
            [] id = "C12" -> C12(s, e)
            \* every stream fold that ended in this run visited every value of its stream (AirInterp!ExecFoldStream)
            [] id = "C13" -> e.out.c13 = <<>>
            [] id = "C16" -> C16model(t, e)
            [] id = "C19" -> C19(s, e))}

Take(e, hstep) ==
    LET t == RunStep(st, e.peer, e.cur, {e.res[i].id : i \in 1..Len(e.res)}, e.out) IN
    /\ ~e.unsup
    /\ st' = t
    /\ dl' = [m \in t.wanted |->
                (IF m \in DOMAIN dl THEN dl[m] ELSE 0)
                + (IF e.cur.ver # 0 /\ m = <<e.cur.from, e.cur.ver, e.peer>> THEN 1 ELSE 0)]
    /\ viol' = Violations(st, t, e)
    /\ hist' = Append(hist, hstep)
    /\ sid' = sid

Start ==
    /\ ~st.started
    /\ nbogus' = nbogus
    /\ Take(Event(InitPeer, "start", NoMsg, <<>>), [a |-> "start"])

Deliver ==
    \E m \in st.wanted :
        /\ st.started /\ dl[m] < MaxDeliveries
        /\ \E S \in SUBSET st.pending[m[3]] :
            LET cur == [from |-> m[1], ver |-> m[2]]
                rs == ResSeq(m[3], S) IN
            /\ nbogus' = nbogus
            /\ Take(Event(m[3], IF S = {} THEN "deliver" ELSE "both", cur, rs),
                    [a |-> "deliver", from |-> m[1], ver |-> m[2], to |-> m[3], res |-> [i \in 1..Len(rs) |-> rs[i].id]])

HostReturn ==
    \E p \in Peers : \E S \in (SUBSET st.pending[p]) \ {{}} :
        LET rs == ResSeq(p, S) IN
        /\ st.started
        /\ nbogus' = nbogus
        /\ Take(Event(p, "return", NoMsg, rs), [a |-> "return", peer |-> p, ids |-> [i \in 1..Len(rs) |-> rs[i].id]])

HostReturnBogus ==
    \E p \in Peers :
        /\ st.started /\ nbogus < MaxBogus
        /\ nbogus' = nbogus + 1
        /\ Take(Event(p, "bogus", NoMsg, <<BogusRes(900 + nbogus)>>), [a |-> "bogus", peer |-> p, id |-> 900 + nbogus, ids |-> <<>>])

Next == st.runs < MaxRuns /\ (Start \/ Deliver \/ HostReturn \/ HostReturnBogus)

Spec == Init /\ [][Next]_vars

\* ---------------------------------------------------------------------------
NoViolation == viol = {} \/ (PrintT(<<"MODELVIOL", viol, ToJson(hist), sid>>) /\ FALSE)

\* nothing left to do except duplicates: every wanted message delivered once, nothing pending
Done == Quiescent(st) \/ st.runs >= MaxRuns

\* ---------------------------------------------------------------------------
\* C08 / C09 on the design: at the end of a behaviour, an observer that merges the last datum of every peer gets the
\* same knowledge in whatever order they arrive (identical traces modulo senders when no stream is involved), and
\* that knowledge contains every result any of the data carried
RECURSIVE ObsFold(_, _, _)
ObsFold(order, i, acc) ==
    IF i > Len(order) THEN acc
    ELSE LET d == st.sent[order[i]][Len(st.sent[order[i]])]
             r == Interp(Script, "O", InitPeer, acc.data, d, {}) IN
         ObsFold(order, i + 1, IF r.unsup THEN [acc EXCEPT !.unsup = TRUE]
                               ELSE IF ReturnsNewData(r.code) THEN [acc EXCEPT !.data = r.data]
                               ELSE [acc EXCEPT !.bad = TRUE])
Senders == {p \in Peers : Len(st.sent[p]) > 0}
RECURSIVE PermsOf(_)
PermsOf(S) == IF S = {} THEN {<<>>} ELSE UNION {{<<x>> \o p : p \in PermsOf(S \ {x})} : x \in S}
Convergence ==
    (("C08" \in CheckIds \/ "C09" \in CheckIds) /\ Done /\ Cardinality(Senders) >= 2 /\ Cardinality(Senders) <= 3) =>
        LET orders == PermsOf(Senders)
            first == CHOOSE o \in orders : TRUE
            res(o) == ObsFold(o, 1, [data |-> EmptyData, unsup |-> FALSE, bad |-> FALSE])
            r1 == res(first)
            ok == \A o \in orders :
                    LET r == res(o) IN
                    r.unsup \/ r1.unsup \/
                    /\ ~r.bad
                    /\ SameKnowledge(r.data.trace, r1.data.trace)
                    /\ ((~HasStreams(r.data.trace) /\ ~HasStreams(r1.data.trace)) => EquivModuloSenders(r.data.trace, r1.data.trace))
                    /\ \A p \in Senders : BagSubset(Results(st.sent[p][Len(st.sent[p])].trace), Results(r.data.trace))
        IN ok \/ (PrintT(<<"MODELVIOL", {"C08"}, ToJson(hist), sid>>) /\ FALSE)

\* behaviour emission (run without the VIEW): one line per complete schedule
EmitSchedules == Done => PrintT(<<"SCHED", ToJson(hist), sid>>)

\* the generated family itself, one line per script (run with MaxRuns = 0)
EmitScripts == PrintT(<<"GENSCRIPT", sid, ToJson(st.script)>>)
=============================================================================
