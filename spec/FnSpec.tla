------------------------------- MODULE FnSpec -------------------------------
(***************************************************************************)
(* Function-level specifications (C21-C24, C28): the decision procedures    *)
(* of the preparation step (versions, size limits), lens navigation, the    *)
(* parser's scoping rule and the beautifier's layout, each as                *)
(*   - a finite case space that TLC enumerates completely (EmitSpec:        *)
(*     every case is an initial state and is printed as JSON), and          *)
(*   - the expected decision as an operator, evaluated by TLC on the        *)
(*     records the harness wrote after executing every case on the real     *)
(*     code (CheckSpec, a trace specification over those records).          *)
(***************************************************************************)
EXTENDS Naturals, Integers, Sequences, FiniteSets, TLC, Json, IOUtils, AirValues

Family == IOEnv.FAMILY
Tier == IOEnv.TIER
\* TLC evaluates every constant definition at start-up: the big case spaces are computed only for their own family
LensOn == Family = "lens"
ScriptOn == Family \in {"parse", "beautify", "runscript"}

Class(code) ==
    IF code = 0 THEN "ok" ELSE IF code >= 1 /\ code <= 9999 THEN "prep"
    ELSE IF code >= 10000 /\ code <= 19999 THEN "catch"
    ELSE IF code >= 20000 /\ code <= 29999 THEN "uncatch"
    ELSE IF code = 30000 THEN "unproc" ELSE "other"

\* ---------------------------------------------------------------------------
\* C21 versions.  Minimal supported interpreter version 0.61.0; semver precedence: a pre-release of
\* the same triple is lower than the release; build metadata is ignored.
MinTriple == <<0, 61, 0>>
TripleLess(a, b) == a[1] < b[1] \/ (a[1] = b[1] /\ a[2] < b[2]) \/ (a[1] = b[1] /\ a[2] = b[2] /\ a[3] < b[3])
VersionSupported(c) ==
    LET t == <<c.maj, c.min, c.pat>> IN
    ~TripleLess(t, MinTriple) /\ ~(t = MinTriple /\ c.pre # "")

VersionCases ==
    {[family |-> "version", maj |-> ma, min |-> mi, pat |-> pa, pre |-> pr, build |-> bu, inner |-> inn, prev |-> pv] :
        ma \in {0, 1}, mi \in {60, 61, 62}, pa \in {0, 1}, pr \in {"", "0", "alpha", "rc.1"}, bu \in {"", "b7"},
        inn \in {"valid", "undecodable", "empty"}, pv \in {"empty", "real"}}

E_UnsupportedVersion == 6
VersionExpect(c, o) ==
    IF c.inner = "empty" THEN
        \* empty current data is treated as empty data, whatever version one might have wanted to put on it
        o.out.died = "" /\ Class(o.out.code) # "prep" /\ o.same_as_empty_data
    ELSE IF ~VersionSupported(c) THEN
        o.out.died = "" /\ o.out.code = E_UnsupportedVersion /\ o.out.eqprev /\ o.out.nnext = 0 /\ o.out.nreq = 0
    ELSE IF c.inner = "undecodable" THEN
        o.out.died = "" /\ o.out.code # E_UnsupportedVersion /\ Class(o.out.code) = "prep" /\ o.out.eqprev
    ELSE o.out.died = "" /\ Class(o.out.code) # "prep"

\* ---------------------------------------------------------------------------
\* C22 size limits.  A limit is given relative to the actual size: 0, size-1, size, size+1, 2^64-1.
LimitKinds == {"zero", "below", "at", "above", "max"}
LimitCases ==
    {[family |-> "limits", air |-> a, particle |-> p, result |-> r, hard |-> h, with_cur |-> wc, with_result |-> wr] :
        a \in LimitKinds, p \in LimitKinds, r \in LimitKinds, h \in BOOLEAN, wc \in BOOLEAN, wr \in BOOLEAN}
\* strictly larger than the limit (an absent input has size 0 and can exceed nothing)
Exceeds(kind, present) == present /\ kind \in {"zero", "below"}
E_SizeLimits == 10
LimitsExpect(c, o) ==
    LET exA == Exceeds(c.air, TRUE)
        exP == Exceeds(c.particle, c.with_cur)
        exR == Exceeds(c.result, c.with_result)
    IN
    /\ o.out.died = ""
    /\ IF c.hard /\ (exA \/ exP \/ exR)
       THEN o.out.code = E_SizeLimits /\ o.out.eqprev /\ o.out.nnext = 0 /\ o.out.nreq = 0
       ELSE /\ o.same_as_unlimited
            /\ o.out.flags = IF c.hard THEN <<FALSE, FALSE, FALSE>> ELSE <<exA, exP, exR>>

\* ---------------------------------------------------------------------------
\* C24 lenses.  Oracle: AirValues!Nav (plain JSON navigation).
Atoms == {Num(0), Num(1), Str("a"), Str("b"), Bool(TRUE), Null, Arr(<<>>), Obj(<<>>)}
Arrays(S) == {Arr(<<x>>) : x \in S} \cup {Arr(<<x, y>>) : x \in S, y \in S}
Objects(S) == {Obj(<<KV("a", x)>>) : x \in S} \cup {Obj(<<KV("b", x)>>) : x \in S}
              \cup {Obj(<<KV("a", x), KV("b", y)>>) : x \in S, y \in S}
Depth1 == IF ~LensOn THEN {} ELSE Arrays(Atoms) \cup Objects(Atoms)
Seeds2 == {Arr(<<Num(0), Num(1)>>), Arr(<<Str("a")>>), Obj(<<KV("a", Num(1))>>), Obj(<<KV("a", Arr(<<Num(0)>>)), KV("b", Str("b"))>>),
           Arr(<<>>), Obj(<<>>), Str("a"), Num(1)}
Depth2 == IF ~LensOn THEN {} ELSE Arrays(Seeds2) \cup Objects(Seeds2)
LensValues == IF ~LensOn THEN {} ELSE IF Tier = "quick" THEN Atoms \cup {v \in Depth1 : TRUE} \cup {Arr(<<x>>) : x \in Seeds2} \cup {Obj(<<KV("a", x)>>) : x \in Seeds2}
              ELSE Atoms \cup Depth1 \cup Depth2

Steps == {[lk |-> "field", name |-> "a"], [lk |-> "field", name |-> "b"],
          [lk |-> "idx", ix |-> 0], [lk |-> "idx", ix |-> 1], [lk |-> "idx", ix |-> 2], [lk |-> "var", x |-> "k"]}
Paths1 == {<<s>> : s \in Steps}
Paths2 == IF ~LensOn THEN {} ELSE {<<s, t>> : s \in Steps, t \in Steps}
Paths3 == IF ~LensOn THEN {} ELSE {<<s, t, u>> : s \in Steps, t \in Steps, u \in Steps}
LensPaths == IF Tier = "quick" THEN Paths1 \cup Paths2 ELSE Paths1 \cup Paths2 \cup Paths3
KVars == {Str("a"), Num(1), Bool(TRUE)}
HasVarStep(p) == \E i \in 1..Len(p) : p[i].lk = "var"
\* carriers: the value as a scalar; an array as a canon stream (its elements are the stream's values); an object of
\* key groups {key: [values]} as a canon stream map (one pair per value; a key written with digits is a numeric key)
CanonValues == {v \in LensValues : IsArr(v)} \cup {Arr(<<Num(0), Str("a"), Arr(<<Num(1), Obj(<<KV("a", Str("b"))>>)>>)>>)}
MapValues == { Obj(<<>>),
               Obj(<<KV("a", Arr(<<Str("a"), Num(1)>>))>>),
               Obj(<<KV("1", Arr(<<Num(0)>>)), KV("a", Arr(<<Obj(<<KV("a", Num(1))>>), Str("b")>>))>>),
               Obj(<<KV("1", Arr(<<Str("b"), Arr(<<Num(0), Num(1)>>)>>)), KV("b", Arr(<<Null>>))>>),
               Obj(<<KV("0", Arr(<<Num(1), Num(0), Str("a")>>)), KV("1", Arr(<<Bool(TRUE)>>)), KV("a", Arr(<<Arr(<<Str("a")>>)>>))>>) }
LensCase(cr, v, p, k) == [family |-> "lens", carrier |-> cr, value |-> v, path |-> p, kvar |-> k]
\* paths of length 3 over a smaller set of values (they add depth of navigation, not new shapes of values)
P3Values == IF ~LensOn \/ Tier = "quick" THEN {} ELSE Atoms \cup {Arr(<<x>>) : x \in Seeds2} \cup {Obj(<<KV("a", x)>>) : x \in Seeds2}
LensCases ==
    {LensCase("scalar", v, p, k) : v \in LensValues, p \in Paths1 \cup Paths2, k \in KVars}
    \cup {LensCase("scalar", v, p, k) : v \in P3Values, p \in Paths3, k \in KVars}
    \cup {LensCase("scalar", v, <<[lk |-> "len"]>>, Str("a")) : v \in LensValues}
    \cup {LensCase("canon", v, p, k) : v \in CanonValues, p \in Paths1 \cup Paths2, k \in KVars}
    \cup {LensCase("canon", v, p, k) : v \in {x \in P3Values : IsArr(x)}, p \in Paths3, k \in KVars}
    \cup {LensCase("canon", v, <<[lk |-> "len"]>>, Str("a")) : v \in CanonValues}
    \cup {LensCase("map", v, p, k) : v \in MapValues, p \in Paths1 \cup Paths2 \cup Paths3, k \in KVars}
\* keep the cases whose path does not use k only once (for k = "a")
LensCasesNorm == {c \in LensCases : HasVarStep(c.path) \/ c.kvar = Str("a")}

Digit(s) == CASE s = "0" -> 0 [] s = "1" -> 1 [] s = "2" -> 2 [] OTHER -> -1
\* an accessor taken from a scalar: a string selects a field, a number an index, anything else is an error
SubstStep(st, k) ==
    IF st.lk # "var" THEN st
    ELSE IF IsStr(k) THEN [lk |-> "field", name |-> k.s]
    ELSE IF IsNum(k) /\ Digit(k.s) >= 0 THEN [lk |-> "idx", ix |-> Digit(k.s)]
    ELSE [lk |-> "impossible"]
\* On a canon stream the lens is plain navigation on the array of its values.  On a canon map the first accessor names a key
\* (a field name, an index or a scalar holding a string or a number, all compared as text) and selects the key's group of
\* values - the empty group when the key is absent -; the rest is plain navigation inside the group.
KeyText(st, k) ==
    IF st.lk = "field" THEN st.name
    ELSE IF st.lk = "idx" THEN ToString(st.ix)
    ELSE IF st.lk = "var" /\ (IsStr(k) \/ IsNum(k)) THEN k.s
    ELSE "?impossible"
LensOracle(c) ==
    IF Len(c.path) = 1 /\ c.path[1].lk = "len"
    THEN (IF IsArr(c.value) THEN [ok |-> TRUE, v |-> Num(Len(c.value.q))] ELSE NoNav)
    ELSE IF c.carrier = "map" THEN
        LET key == KeyText(c.path[1], c.kvar)
            g == Lookup(c.value.q, key)
            group == IF g.ok THEN g.v ELSE Arr(<<>>)
            rest == SubSeq(c.path, 2, Len(c.path)) IN
        IF key = "?impossible" THEN NoNav
        ELSE Nav(group, [i \in 1..Len(rest) |-> SubstStep(rest[i], c.kvar)])
    ELSE Nav(c.value, [i \in 1..Len(c.path) |-> SubstStep(c.path[i], c.kvar)])
LensExpect(c, o) ==
    LET r == LensOracle(c) IN
    IF r.ok THEN o.branch = "ok" /\ o.arg = r.v
    ELSE o.branch = "err" /\ Class(o.code) = "catch"

\* ---------------------------------------------------------------------------
\* C23 / C28 scripts: a small generated family of ASTs over two scalars x, y, one stream, one canon stream
\* and two iterators, including ill-scoped ones.
SL(s) == [o |-> "lit", v |-> Str(s)]
PV(n) == [o |-> "var", n |-> n, lens |-> <<>>]
PA == [o |-> "peer", n |-> "A"]
CallI(args, out) == [op |-> "call", peer |-> PA, srv |-> SL("s"), fn |-> SL("f"), args |-> args, out |-> out]
NoneI == [op |-> "none"]
Leaves ==
    { CallI(<<>>, "x"), CallI(<<PV("x")>>, ""), CallI(<<PV("y")>>, "x"), CallI(<<PV("x"), SL("lit")>>, "y"),
      CallI(<<PV("i")>>, ""), CallI(<<PV("#c")>>, ""), CallI(<<>>, "$s"),
      [op |-> "call", peer |-> PV("x"), srv |-> SL("s"), fn |-> SL("f"), args |-> <<>>, out |-> ""],
      [op |-> "ap", src |-> PV("x"), dst |-> "y"], [op |-> "ap", src |-> SL("v"), dst |-> "x"],
      [op |-> "ap", src |-> [o |-> "var", n |-> "x", lens |-> <<[lk |-> "var", x |-> "y"]>>], dst |-> "$s"],
      [op |-> "next", x |-> "i"], [op |-> "next", x |-> "j"], [op |-> "null"], [op |-> "never"],
      [op |-> "canon", peer |-> PA, s |-> "$s", c |-> "#c"],
      [op |-> "fail", a |-> PV("x"), b |-> [o |-> "empty"]] }
Compound(S, T) ==
    {[op |-> "seq", l |-> a, r |-> b] : a \in S, b \in T}
    \cup {[op |-> "par", l |-> a, r |-> b] : a \in S, b \in T}
    \cup {[op |-> "xor", l |-> a, r |-> b] : a \in S, b \in T}
Wrap(S) ==
    {[op |-> "fold", it |-> PV("x"), x |-> "i", i |-> a, last |-> NoneI] : a \in S}
    \cup {[op |-> "fold", it |-> PV("$s"), x |-> "j", i |-> a, last |-> NoneI] : a \in S}
    \cup {[op |-> "fold", it |-> PV("y"), x |-> "i", i |-> a, last |-> [op |-> "null"]] : a \in S}
    \cup {[op |-> "fold", it |-> PV("x"), x |-> "x", i |-> a, last |-> NoneI] : a \in S}
    \cup {[op |-> "new", n |-> "x", i |-> a] : a \in S}
    \cup {[op |-> "match", a |-> PV("x"), b |-> SL("lit"), i |-> a] : a \in S}
    \cup {[op |-> "mismatch", a |-> PV("y"), b |-> PV("x"), i |-> a] : a \in S}
D1 == IF ~ScriptOn THEN {} ELSE Compound(Leaves, Leaves) \cup Wrap(Leaves)
Def == CallI(<<>>, "x")
\* depth 2: a defining prefix followed by anything of depth 1, wrappers over binary nodes, binary nodes over wrappers
D2quick == IF ~ScriptOn THEN {} ELSE {[op |-> "seq", l |-> Def, r |-> a] : a \in D1} \cup Wrap(Compound(Leaves, {[op |-> "next", x |-> "i"], CallI(<<PV("i")>>, "y")}))
D2full == IF ~ScriptOn THEN {} ELSE D2quick \cup Compound(Wrap(Leaves), Leaves) \cup Compound(Leaves, Wrap(Leaves)) \cup Wrap(Compound(Leaves, Leaves))
          \cup {[op |-> "seq", l |-> Def, r |-> [op |-> "seq", l |-> a, r |-> b]] : a \in Leaves, b \in Wrap(Leaves)}
ScriptSpace == IF Tier = "quick" THEN Leaves \cup D1 \cup D2quick ELSE Leaves \cup D1 \cup D2full
\* deep chains: wrapper k of depth d around wrapper k+1 of depth d-1 ... around a leaf, behind a defining prefix; nesting
\* depths the small family never reaches (layout is indentation = depth, whatever the depth)
WrapK(k, d, a) ==
    CASE k % 6 = 0 -> [op |-> "xor", l |-> a, r |-> [op |-> "null"]]
      [] k % 6 = 1 -> [op |-> "par", l |-> [op |-> "null"], r |-> a]
      [] k % 6 = 2 -> [op |-> "new", n |-> "x", i |-> a]
      [] k % 6 = 3 -> [op |-> "match", a |-> SL("a"), b |-> SL("a"), i |-> a]
      [] k % 6 = 4 -> [op |-> "fold", it |-> PV("x"), x |-> "i" \o ToString(d), i |-> [op |-> "seq", l |-> a, r |-> [op |-> "next", x |-> "i" \o ToString(d)]], last |-> NoneI]
      [] OTHER     -> [op |-> "xor", l |-> [op |-> "seq", l |-> [op |-> "null"], r |-> a], r |-> [op |-> "never"]]
RECURSIVE Chain(_, _)
Chain(k, d) == IF d = 0 THEN CallI(<<PV("x")>>, "") ELSE WrapK(k, d, Chain(k + 1, d - 1))
DeepChains == IF ~ScriptOn THEN {} ELSE {[op |-> "seq", l |-> Def, r |-> Chain(k, d)] : k \in 0..5, d \in 3..(IF Tier = "quick" THEN 9 ELSE 14)}
\* uses after a fold of what belongs to it: a second `next`, the iterator, a name defined in the body
AfterFold == IF ~ScriptOn THEN {} ELSE
    {[op |-> "seq", l |-> Def, r |-> [op |-> "seq", l |-> w, r |-> a]] :
        w \in Wrap({[op |-> "next", x |-> "i"], [op |-> "seq", l |-> CallI(<<PV("i")>>, "y"), r |-> [op |-> "next", x |-> "i"]], [op |-> "null"]}),
        a \in {[op |-> "next", x |-> "i"], CallI(<<PV("i")>>, ""), CallI(<<PV("y")>>, ""), [op |-> "next", x |-> "j"]}}
ParseCases == {[family |-> "parse", script |-> s] : s \in ScriptSpace \cup DeepChains \cup AfterFold}
BeautifyCases == {[family |-> "beautify", script |-> s] : s \in ScriptSpace \cup DeepChains}

\* C23 oracle: every variable used is defined earlier in the text or is an enclosing fold iterator, every
\* `next` lies inside a fold over its iterator.  Scoped(i, env) walks the instruction in text order and
\* returns [ok, defs]; env = [defs (names defined so far, incl. earlier iterators), iters (enclosing iterators)].
IsValueName(n) == SubSeq(n, 1, 1) \notin {"$", "%"}        \* scalars and canon streams need a definition
LensUses(lens) == {lens[k].x : k \in {j \in 1..Len(lens) : lens[j].lk = "var"}}
OpndUses(o) == IF o.o = "var" THEN (IF IsValueName(o.n) THEN {o.n} ELSE {}) \cup LensUses(o.lens) ELSE {}
UsesOf(i, relaxFail) ==
    CASE i.op = "call" -> OpndUses(i.peer) \cup OpndUses(i.srv) \cup OpndUses(i.fn)
                          \cup UNION {OpndUses(i.args[k]) : k \in 1..Len(i.args)}
      [] i.op \in {"match", "mismatch"} -> OpndUses(i.a) \cup OpndUses(i.b)
      [] i.op = "ap" -> OpndUses(i.src)
      [] i.op = "fold" -> OpndUses(i.it)
      [] i.op = "fail" -> IF relaxFail THEN {} ELSE OpndUses(i.a)
      [] i.op = "canon" -> OpndUses(i.peer)
      [] OTHER -> {}
DefsOf(i) ==
    CASE i.op = "call" -> IF i.out # "" /\ IsValueName(i.out) THEN {i.out} ELSE {}
      [] i.op = "ap" -> IF IsValueName(i.dst) THEN {i.dst} ELSE {}
      [] i.op = "canon" -> {i.c}
      [] OTHER -> {}
RECURSIVE Scoped(_, _)
Scoped(i, env) ==
    LET usesOk == UsesOf(i, env.relaxFail) \subseteq (env.defs \cup env.iters) IN
    CASE i.op \in {"seq", "par", "xor"} ->
            LET l == Scoped(i.l, env)
                r == Scoped(i.r, [env EXCEPT !.defs = l.defs]) IN
            [ok |-> l.ok /\ r.ok, defs |-> r.defs]
      [] i.op \in {"match", "mismatch"} ->
            LET b == Scoped(i.i, env) IN [ok |-> usesOk /\ b.ok, defs |-> b.defs]
      [] i.op = "new" ->
            LET b == Scoped(i.i, [env EXCEPT !.defs = @ \cup (IF IsValueName(i.n) THEN {i.n} ELSE {})]) IN [ok |-> b.ok, defs |-> b.defs]
      [] i.op = "fold" ->
            LET b == Scoped(i.i, [env EXCEPT !.defs = @ \cup {i.x}, !.iters = @ \cup {i.x}])
                la == IF i.last.op = "none" THEN [ok |-> TRUE, defs |-> b.defs]
                      ELSE Scoped(i.last, [env EXCEPT !.defs = b.defs, !.iters = @ \cup {i.x}]) IN
            [ok |-> usesOk /\ b.ok /\ la.ok, defs |-> la.defs]
      [] i.op = "next" -> [ok |-> i.x \in env.iters \/ (env.relaxNext /\ i.x \in env.defs), defs |-> env.defs]
      [] i.op = "none" -> [ok |-> TRUE, defs |-> env.defs]
      [] OTHER -> [ok |-> usesOk, defs |-> env.defs \cup DefsOf(i)]
WellScoped(script) == Scoped(script, [defs |-> {}, iters |-> {}, relaxFail |-> FALSE, relaxNext |-> FALSE]).ok
\* known finding "fail-scalar-undefined": the validator does not look at the operand of `fail <scalar>`
WellScopedButFail(script) == Scoped(script, [defs |-> {}, iters |-> {}, relaxFail |-> TRUE, relaxNext |-> FALSE]).ok
\* known finding "next-after-its-fold": a `next i` after the fold over i is accepted when the fold contains a next of
\* its own (only the first recorded `next` of a name is checked; pinned upstream by the test fold_state_not_found)
WellScopedButNext(script) == Scoped(script, [defs |-> {}, iters |-> {}, relaxFail |-> FALSE, relaxNext |-> TRUE]).ok

ParseExpect(c, o) == o.res \in {"ok", "err"} /\ (o.res = "ok" => WellScoped(c.script))
ParseTag(c, o) ==
    IF o.res = "ok" /\ WellScopedButFail(c.script) THEN "fail-scalar-undefined"
    ELSE IF o.res = "ok" /\ WellScopedButNext(c.script) THEN "next-after-its-fold" ELSE ""

\* C28 oracle: the layout of the beautified script: one line per instruction in order, indentation = nesting
\* depth with sequences flattened, compound instructions introduced by their keyword, operands as in the script.
RECURSIVE LensTxt(_, _)
LensTxt(lens, k) ==
    IF k > Len(lens) THEN ""
    ELSE (IF k = 1 THEN "" ELSE ".")
         \o (IF lens[k].lk = "field" THEN lens[k].name ELSE IF lens[k].lk = "idx" THEN "[" \o ToString(lens[k].ix) \o "]"
             ELSE IF lens[k].lk = "var" THEN "[" \o lens[k].x \o "]" ELSE "?")
         \o LensTxt(lens, k + 1)
OpndTxt(o) ==
    CASE o.o = "lit" -> IF o.v.t = "s" THEN "\"" \o o.v.s \o "\"" ELSE o.v.s
      [] o.o = "peer" -> "\"" \o o.n \o "\""
      [] o.o = "init" -> "%init_peer_id%"
      [] o.o = "empty" -> "[]"
      [] o.o = "var" -> o.n \o (IF Len(o.lens) = 0 THEN "" ELSE ".$." \o LensTxt(o.lens, 1))
      [] OTHER -> "?"
RECURSIVE JoinTxt(_, _, _)
JoinTxt(q, k, sep) == IF k > Len(q) THEN "" ELSE (IF k = 1 THEN "" ELSE sep) \o OpndTxt(q[k]) \o JoinTxt(q, k + 1, sep)
Line(d, t) == [d |-> d, text |-> t]
RECURSIVE Shape(_, _)
Shape(i, d) ==
    CASE i.op = "seq" -> Shape(i.l, d) \o Shape(i.r, d)
      [] i.op = "par" -> <<Line(d, "par:")>> \o Shape(i.l, d + 1) \o <<Line(d, "|")>> \o Shape(i.r, d + 1)
      [] i.op = "xor" -> <<Line(d, "try:")>> \o Shape(i.l, d + 1) \o <<Line(d, "catch:")>> \o Shape(i.r, d + 1)
      [] i.op = "call" -> <<Line(d, (IF i.out = "" THEN "" ELSE i.out \o " <- ") \o "call " \o OpndTxt(i.peer) \o " (" \o OpndTxt(i.srv)
                                    \o ", " \o OpndTxt(i.fn) \o ") [" \o JoinTxt(i.args, 1, ", ") \o "]")>>
      [] i.op = "ap" -> <<Line(d, "ap " \o OpndTxt(i.src) \o " " \o i.dst)>>
      [] i.op = "next" -> <<Line(d, "next " \o i.x)>>
      [] i.op = "null" -> <<Line(d, "null")>>
      [] i.op = "never" -> <<Line(d, "never")>>
      [] i.op = "canon" -> <<Line(d, "canon " \o OpndTxt(i.peer) \o " " \o i.s \o " " \o i.c)>>
      [] i.op = "fail" -> <<Line(d, "fail " \o OpndTxt(i.a))>>
      [] i.op = "match" -> <<Line(d, "match " \o OpndTxt(i.a) \o " " \o OpndTxt(i.b) \o ":")>> \o Shape(i.i, d + 1)
      [] i.op = "mismatch" -> <<Line(d, "mismatch " \o OpndTxt(i.a) \o " " \o OpndTxt(i.b) \o ":")>> \o Shape(i.i, d + 1)
      [] i.op = "new" -> <<Line(d, "new " \o i.n \o ":")>> \o Shape(i.i, d + 1)
      [] i.op = "fold" -> <<Line(d, "fold " \o OpndTxt(i.it) \o " " \o i.x \o ":")>> \o Shape(i.i, d + 1)
                          \o (IF i.last.op = "none" THEN <<>> ELSE <<Line(d, "last:")>> \o Shape(i.last, d + 1))
      [] OTHER -> <<Line(d, "?")>>
BeautifyExpect(c, o) ==
    o.res \in {"ok", "err"} /\ (o.res = "ok" => o.lines = Shape(c.script, 0))

\* ---------------------------------------------------------------------------
\* C01, text and byte entry points: token-level mutations of catalogue scripts (parse, beautify, execute) and
\* byte-level mutations of honest data (execute as current data, pretty-print); the only expectation is totality
TextOps == {"drop", "dup", "swap", "open", "close", "trunc", "quote", "deep", "long", "lens", "num"}
TextCases == {c \in {[family |-> "text", base |-> b, op |-> o, pos |-> k] : b \in {"SM1", "SM2", "SM3", "SM4"}, o \in TextOps, k \in 0..15} :
                 c.op \in {"deep", "long", "verydeep"} => (c.pos = 0 /\ c.base \in {"SM1", "SM4"})}
              \cup {[family |-> "text", base |-> "SM1", op |-> "verydeep", pos |-> 0]}
ByteOps == {"flip", "zero", "ff", "trunc", "dup", "ins"}
ByteCases == {[family |-> "bytes", op |-> o, pos |-> k] : o \in ByteOps, k \in 0..63}
\* C18: a failing / waiting / succeeding instruction in a context, run uncaught (U) and under an xor (C) whose
\* catch branch reports :error:.error_code, :error:.message to a service
CatchableKinds == {"service_error", "fail_literal", "match_ne", "mismatch_eq", "lens_field_missing", "lens_index_oob", "lens_on_scalar",
                   "ap_lens_missing", "fold_non_array", "non_string_triplet", "length_of_non_array", "not_init_after_new", "fail_last_error_clean"}
QuietKinds == {"ok_call", "never", "join_wait", "null"}
UncatchableKinds == {"shadowing"}
XorContexts == {"plain", "seq_after", "par_left", "par_both", "fold_body", "new_scope", "seq_then"}
XorCases == {[family |-> "xor", kind |-> k, ctx |-> x] : k \in CatchableKinds \cup QuietKinds \cup UncatchableKinds, x \in XorContexts}
\* contexts in which the uncaught failure is what the run reports (a par swallows or replaces it)
Transparent(x) == x \in {"plain", "seq_after", "fold_body", "new_scope", "seq_then"}
XorExpect(c, o) ==
    /\ o.u_died = "" /\ o.c_died = ""
    /\ c.kind \in CatchableKinds =>
          /\ o.ncaught >= 1
          /\ Transparent(c.ctx) => (Class(o.u_code) = "catch" /\ o.caught_code = NumS(ToString(o.u_code)) /\ o.msg_equal)
          /\ c.ctx = "seq_then" => (o.after_c /\ ~o.after_u)
          /\ Transparent(c.ctx) => o.c_final = 0
    /\ c.kind \in QuietKinds => o.ncaught = 0
    /\ c.kind \in UncatchableKinds =>
          /\ o.ncaught = 0
          /\ c.ctx # "fold_body" => (Class(o.u_code) = "uncatch" /\ o.c_first_err = o.u_code)

\* C25: content ids.  (a) canonical: the id of a value does not depend on the route by which the value was built
\* and differs from the id of another value; (b) verification decision table: accepted iff the id is a json-codec
\* CIDv1 whose full sha2-256 or blake3-256 digest is the digest of the value's canonical bytes.
CidRoutes == {"direct", "reparsed", "pretty_reparsed", "reversed_insertion", "forward_insertion", "via_std_value"}
CidMutations == {"exact_blake3", "exact_sha2", "sha3_code", "identity_code", "truncated_blake3", "truncated_sha2", "bitflip",
                 "first_bitflip", "other_value", "codec_raw", "codec_cbor", "garbage", "empty", "swapped_hash_code"}
CidCases == {[family |-> "cid", kind |-> "canon", value |-> v, route |-> r, mutation |-> ""] : v \in 0..7, r \in CidRoutes}
            \cup {[family |-> "cid", kind |-> "verify", value |-> v, route |-> "", mutation |-> m] : v \in 0..7, m \in CidMutations}
CidAccepts(m) == m \in {"exact_blake3", "exact_sha2"}
CidExpect(c, o) ==
    IF c.kind = "canon" THEN o.same_as_direct /\ o.differs_from_other /\ o.matches_independent
    ELSE LET want == IF CidAccepts(c.mutation) THEN "accept" ELSE "reject" IN o.typed = want /\ o.raw = want

\* C27 (table part): a call-request / call-result payload decodes exactly iff it carries the right codec tag and an
\* intact body; the versions of an envelope are readable iff the outer encoding is intact, whatever the inner data
CodecCases == {[family |-> "codec", payload |-> p, tag |-> t, body |-> b, outer |-> "", inner |-> ""] :
                   p \in {"requests", "results"}, t \in {"right", "json", "cbor", "absent", "truncated", "empty"}, b \in {"ok", "corrupt"}}
              \cup {[family |-> "codec", payload |-> "envelope", tag |-> "", body |-> "", outer |-> ou, inner |-> inn] :
                   ou \in {"ok", "corrupt"}, inn \in {"ok", "corrupt"}}
CodecExpect(c, o) ==
    IF c.payload = "envelope" THEN
        /\ o.versions_readable = (c.outer = "ok")
        /\ o.decodes = (c.outer = "ok" /\ c.inner = "ok")
    ELSE o.decoded_exactly = (c.tag = "right" /\ c.body = "ok")

\* C02 / C21 / C22 (pipeline order): the preparation pipeline of runner.rs as an ordered list of guarded steps; the first
\* failing step decides the outcome code, and every preparation failure returns the previous data untouched.
\*   size limits (10, hard mode) -> current envelope (3) -> version of current (6) -> current inner data (2) ->
\*   CID store (8) -> signatures (9) -> script (1) -> call results (5) -> result size (10, hard mode) -> key (7)
PrepInputs ==
    {[family |-> "prep", air_ex |-> a, part_ex |-> p, hard |-> h, cur |-> cu, script |-> s, results |-> r, key |-> ky] :
        a \in BOOLEAN, p \in BOOLEAN, h \in BOOLEAN,
        cu \in {"ok", "corrupt_outer", "old_version", "corrupt_inner", "bad_store", "bad_sig"},
        s \in {"ok", "unparsable"}, r \in {"ok", "undecodable", "too_big"}, ky \in {"ok", "bad"}}
PrepSteps(c) ==
    << [fails |-> c.hard /\ c.air_ex, code |-> 10],
       [fails |-> c.hard /\ c.part_ex, code |-> 10],
       [fails |-> c.cur = "corrupt_outer", code |-> 3],
       [fails |-> c.cur = "old_version", code |-> 6],
       [fails |-> c.cur = "corrupt_inner", code |-> 2],
       [fails |-> c.cur = "bad_store", code |-> 8],
       [fails |-> c.cur = "bad_sig", code |-> 9],
       [fails |-> c.script = "unparsable", code |-> 1],
       [fails |-> c.results = "undecodable", code |-> 5],
       [fails |-> c.hard /\ c.results = "too_big", code |-> 10],
       [fails |-> c.key = "bad", code |-> 7] >>
RECURSIVE FirstFailure(_, _)
FirstFailure(steps, i) == IF i > Len(steps) THEN 0 ELSE IF steps[i].fails THEN steps[i].code ELSE FirstFailure(steps, i + 1)
PrepCode(c) == FirstFailure(PrepSteps(c), 1)
PrepExpect(c, o) ==
    LET want == PrepCode(c) IN
    /\ o.out.died = ""
    /\ IF want # 0 THEN o.out.code = want /\ o.out.eqprev /\ o.out.nnext = 0 /\ o.out.nreq = 0
       ELSE Class(o.out.code) # "prep"
    \* soft mode: exactly the matching flags
    /\ (~c.hard /\ want = 0) => o.out.flags = <<c.air_ex, c.part_ex, c.results = "too_big">>

RunScriptCases == {[family |-> "runscript", script |-> s] : s \in ScriptSpace}
RunScriptExpect(c, o) == o.exec_died = ""
TextExpect(c, o) == o.parse # "panic" /\ o.beautify # "panic" /\ o.exec_died = ""
BytesExpect(c, o) == o.pretty # "panic" /\ o.exec_died = ""

Cases ==
    CASE Family = "version" -> VersionCases
      [] Family = "text" -> TextCases
      [] Family = "runscript" -> RunScriptCases
      [] Family = "xor" -> XorCases
      [] Family = "prep" -> PrepInputs
      [] Family = "cid" -> CidCases
      [] Family = "codec" -> CodecCases
      [] Family = "bytes" -> ByteCases
      [] Family = "limits" -> LimitCases
      [] Family = "lens" -> LensCasesNorm
      [] Family = "parse" -> ParseCases
      [] Family = "beautify" -> BeautifyCases

Expect(c, o) ==
    CASE c.family = "version" -> VersionExpect(c, o)
      [] c.family = "limits" -> LimitsExpect(c, o)
      [] c.family = "lens" -> LensExpect(c, o)
      [] c.family = "parse" -> ParseExpect(c, o)
      [] c.family = "beautify" -> BeautifyExpect(c, o)
      [] c.family = "text" -> TextExpect(c, o)
      [] c.family = "runscript" -> RunScriptExpect(c, o)
      [] c.family = "xor" -> XorExpect(c, o)
      [] c.family = "prep" -> PrepExpect(c, o)
      [] c.family = "cid" -> CidExpect(c, o)
      [] c.family = "codec" -> CodecExpect(c, o)
      [] c.family = "bytes" -> BytesExpect(c, o)

\* --- enumeration: every case is an initial state
VARIABLES cs, l
EmitInit == cs \in Cases /\ l = 0
EmitNext == FALSE /\ UNCHANGED <<cs, l>>
EmitSpec == EmitInit /\ [][EmitNext]_<<cs, l>>
EmitCase == PrintT(<<"CASE", ToJson(cs)>>)

\* --- validation of the executed cases
Rec == ndJsonDeserialize(IOEnv.TRACE)
CheckInit == cs = [family |-> "none"] /\ l = 1
CheckNext == l <= Len(Rec) /\ l' = l + 1 /\ cs' = Rec[l].case
CheckSpec == CheckInit /\ [][CheckNext]_<<cs, l>>
\* known finding "map-absent-key-path": with an absent key and a longer path the canon map lens returns the empty group
\* itself instead of failing to navigate into it (pinned upstream by canon_map_non_existing_index_and_element_tetraplet_check)
LensTag(c, o) ==
    IF c.carrier = "map" /\ Len(c.path) >= 2 /\ KeyText(c.path[1], c.kvar) # "?impossible"
       /\ ~Lookup(c.value.q, KeyText(c.path[1], c.kvar)).ok /\ o.branch = "ok" /\ o.arg = Arr(<<>>)
    THEN "map-absent-key-path" ELSE ""
Tag(c, o) == IF c.family = "parse" THEN ParseTag(c, o) ELSE IF c.family = "lens" THEN LensTag(c, o) ELSE ""
CheckCase ==
    l > 1 => (Expect(Rec[l - 1].case, Rec[l - 1].obs)
              \/ PrintT(<<"VIOLATION", IOEnv.PROP, Rec[l - 1].n, 0, Tag(Rec[l - 1].case, Rec[l - 1].obs)>>))
\* the executed cases are exactly the enumerated space
AllExecuted ==
    LET d == TLCGet("stats").diameter IN
    IF d - 1 = Len(Rec) /\ {Rec[i].case : i \in 1..Len(Rec)} = Cases THEN TRUE
    ELSE Print(<<"TRACE-REJECTED", d, Len(Rec), Cardinality(Cases)>>, FALSE)
=============================================================================
