------------------------------- MODULE SeqSem -------------------------------
(***************************************************************************)
(* Independent reference evaluator: the *sequential* meaning of a script    *)
(* (docs/AIR.md), big-step, with no traces, no peers' data, no merging and   *)
(* no joins.  Oracle of C16 (which calls the script makes), C17 (which       *)
(* tetraplets accompany the arguments), C18 (which catch branches run) and   *)
(* C19a (where each call is addressed).  Imports only AirValues.             *)
(*                                                                          *)
(* Fragment: call, seq, par, xor, match, mismatch, fail, null, never, scalar *)
(* ap, lenses by field / index, new (scalar), fold over a scalar with next.  *)
(* Eval returns [sc, calls, st, catches]:                                     *)
(*   sc      visible scalar bindings  name -> [v, tp]                         *)
(*   calls   sequence of [p, srv, fn, args, tets] in sequential order         *)
(*   st      "done" | "stopped" | "failed"                                    *)
(*   tr      the skeleton of the trace the sequential reading records: one    *)
(*           entry per call reached with resolved operands, one [par lsz rsz] *)
(*           per par (pre-order, as in the data)                              *)
(***************************************************************************)
EXTENDS Naturals, Integers, Sequences, FiniteSets, TLC, AirValues

SS_Lit(init) == [p |-> init, s |-> "", f |-> "", lens |-> ""]

SS_With(f, n, v) == [x \in (DOMAIN f) \cup {n} |-> IF x = n THEN v ELSE f[x]]
SS_Without(f, n) == [x \in (DOMAIN f) \ {n} |-> f[x]]

SS_StepText(s) ==
    IF s.lk = "field" THEN s.name ELSE IF s.lk = "idx" THEN "[" \o ToString(s.ix) \o "]" ELSE "?"
RECURSIVE SS_Join(_, _)
SS_Join(lens, i) ==
    IF i > Len(lens) THEN "" ELSE SS_StepText(lens[i]) \o (IF i < Len(lens) THEN "." ELSE "") \o SS_Join(lens, i + 1)
SS_LensText(lens) == ".$." \o SS_Join(lens, 1)

\* operand -> [r: "ok" | "unbound" | "fail", val: [v, tp]]
SS_None == [v |-> Null, tp |-> [p |-> "", s |-> "", f |-> "", lens |-> ""]]
SS_Resolve(env, o) ==
    CASE o.o = "lit"   -> [r |-> "ok", val |-> [v |-> o.v, tp |-> SS_Lit(env.init)]]
      [] o.o = "peer"  -> [r |-> "ok", val |-> [v |-> Str(o.n), tp |-> SS_Lit(env.init)]]
      [] o.o = "init"  -> [r |-> "ok", val |-> [v |-> Str(env.init), tp |-> SS_Lit(env.init)]]
      [] o.o = "empty" -> [r |-> "ok", val |-> [v |-> Arr(<<>>), tp |-> SS_Lit(env.init)]]
      [] o.o = "var" ->
            IF o.n \notin DOMAIN env.sc THEN [r |-> "unbound", val |-> SS_None]
            ELSE LET b == env.sc[o.n] IN
                 IF Len(o.lens) = 0 THEN [r |-> "ok", val |-> b]
                 ELSE IF Len(o.lens) = 1 /\ o.lens[1].lk = "len" THEN
                     (IF IsArr(b.v) THEN [r |-> "ok", val |-> [v |-> Num(Len(b.v.q)), tp |-> [b.tp EXCEPT !.lens = @ \o ".length"]]]
                      ELSE [r |-> "fail", val |-> SS_None])
                 ELSE LET nv == Nav(b.v, o.lens) IN
                      IF nv.ok THEN [r |-> "ok", val |-> [v |-> nv.v, tp |-> [b.tp EXCEPT !.lens = @ \o SS_LensText(o.lens)]]]
                      ELSE [r |-> "fail", val |-> SS_None]
      [] OTHER -> [r |-> "unbound", val |-> SS_None]

RECURSIVE SS_ResolveAll(_, _, _, _)
SS_ResolveAll(env, os, i, acc) ==
    IF i > Len(os) THEN [r |-> "ok", vals |-> acc]
    ELSE LET x == SS_Resolve(env, os[i]) IN
         IF x.r = "ok" THEN SS_ResolveAll(env, os, i + 1, Append(acc, x.val)) ELSE [r |-> x.r, vals |-> acc]

SS_St(env, s) == [env EXCEPT !.st = s]

RECURSIVE SS_Eval(_, _)

SS_Call(i, env) ==
    LET p == SS_Resolve(env, i.peer)  s == SS_Resolve(env, i.srv)  f == SS_Resolve(env, i.fn)
        a == SS_ResolveAll(env, i.args, 1, <<>>) IN
    IF p.r = "unbound" \/ s.r = "unbound" \/ f.r = "unbound" \/ a.r = "unbound" THEN [SS_St(env, "stopped") EXCEPT !.stuck = TRUE]
    ELSE IF p.r = "fail" \/ s.r = "fail" \/ f.r = "fail" THEN SS_St(env, "failed")
    \* the call is reached but its arguments cannot be computed: no call is made.  A peer that reached the call before
    \* the arguments were known may have marked it as sent to its target (it cannot know yet): the skeleton keeps a
    \* placeholder that a request-sent state - and nothing else - may occupy
    ELSE IF a.r = "fail" THEN SS_St([env EXCEPT !.tr = Append(@, [k |-> "callfail", p |-> "", s |-> "", f |-> "", lsz |-> 0, rsz |-> 0])], "failed")
    ELSE IF ~IsStr(p.val.v) \/ ~IsStr(s.val.v) \/ ~IsStr(f.val.v) THEN SS_St(env, "failed")
    ELSE
    LET args == [j \in 1..Len(a.vals) |-> a.vals[j].v]
        tets == [j \in 1..Len(a.vals) |-> <<a.vals[j].tp>>]
        pn == p.val.v.s  sn == s.val.v.s  fnn == f.val.v.s
        sv == Service(sn, fnn, args)
        e1 == [env EXCEPT !.calls = Append(@, [p |-> pn, srv |-> sn, fn |-> fnn, args |-> args, tets |-> tets]),
                          !.tr = Append(@, [k |-> "call", p |-> pn, s |-> sn, f |-> fnn, lsz |-> 0, rsz |-> 0])]
    IN  IF sv.rc # 0 \/ sv.v.t = "raw" THEN SS_St(e1, "failed")
        ELSE IF i.out = "" THEN SS_St(e1, "done")
        ELSE SS_St([e1 EXCEPT !.sc = SS_With(@, i.out, [v |-> sv.v, tp |-> [p |-> pn, s |-> sn, f |-> fnn, lens |-> ""]])], "done")

SS_Seq(i, env) ==
    LET l == SS_Eval(i.l, env) IN IF l.st = "done" THEN SS_Eval(i.r, l) ELSE l

SS_Par(i, env) ==
    LET at == Len(env.tr) + 1
        l == SS_Eval(i.l, [env EXCEPT !.tr = Append(@, [k |-> "par", p |-> "", s |-> "", f |-> "", lsz |-> 0, rsz |-> 0])])
        r0 == SS_Eval(i.r, SS_St(l, "done"))
        r == [r0 EXCEPT !.tr[at].lsz = Len(l.tr) - at, !.tr[at].rsz = Len(r0.tr) - Len(l.tr)] IN
    IF l.st = "failed" /\ r.st = "failed" THEN r
    ELSE SS_St(r, IF l.st = "done" \/ r.st = "done" THEN "done" ELSE "stopped")

SS_Xor(i, env) ==
    LET l == SS_Eval(i.l, env) IN
    IF l.st = "failed" THEN SS_Eval(i.r, [SS_St(l, "done") EXCEPT !.catches = Append(@, i.r)]) ELSE l

SS_Match(i, env, wantEq) ==
    LET a == SS_Resolve(env, i.a)  b == SS_Resolve(env, i.b) IN
    IF a.r = "unbound" \/ b.r = "unbound" THEN [SS_St(env, "stopped") EXCEPT !.stuck = TRUE]
    ELSE IF a.r = "fail" \/ b.r = "fail" THEN SS_St(env, "failed")
    ELSE IF (a.val.v = b.val.v) = wantEq THEN SS_Eval(i.i, env) ELSE SS_St(env, "failed")

SS_Ap(i, env) ==
    LET a == SS_Resolve(env, i.src) IN
    IF a.r = "unbound" THEN [SS_St(env, "stopped") EXCEPT !.stuck = TRUE]
    ELSE IF a.r = "fail" THEN SS_St(env, "failed")
    ELSE SS_St([env EXCEPT !.sc = SS_With(@, i.dst, a.val)], "done")

SS_New(i, env) ==
    LET had == i.n \in DOMAIN env.sc
        old == IF had THEN env.sc[i.n] ELSE SS_None
        b == SS_Eval(i.i, [env EXCEPT !.sc = SS_Without(@, i.n)]) IN
    [b EXCEPT !.sc = IF had THEN SS_With(SS_Without(@, i.n), i.n, old) ELSE SS_Without(@, i.n)]

SS_IterVal(src, j) == [v |-> src.v.q[j], tp |-> [src.tp EXCEPT !.lens = @ \o ".$.[" \o ToString(j - 1) \o "]"]]

\* one iteration: body evaluated with the iterator bound to element j, starting from the bindings visible
\* before the fold (`base`); `next` recurses through env.folds
SS_Iter(env, x, j) ==
    LET fs == env.folds[x]
        e0 == [env EXCEPT !.sc = SS_With(fs.base, x, SS_IterVal(fs.src, j)), !.folds[x].idx = j] IN
    SS_Eval(fs.body, e0)

SS_Fold(i, env) ==
    LET a == SS_Resolve(env, i.it) IN
    IF a.r = "unbound" THEN [SS_St(env, "stopped") EXCEPT !.stuck = TRUE]
    ELSE IF a.r = "fail" \/ ~IsArr(a.val.v) THEN SS_St(env, "failed")
    ELSE IF Len(a.val.v.q) = 0 THEN SS_St(env, "done")
    ELSE
    LET e0 == [env EXCEPT !.folds = SS_With(@, i.x, [src |-> a.val, idx |-> 1, body |-> i.i, last |-> i.last, base |-> env.sc])]
        b == SS_Iter(e0, i.x, 1) IN
    [b EXCEPT !.sc = env.sc, !.folds = SS_Without(@, i.x)]

SS_Next(i, env) ==
    IF i.x \notin DOMAIN env.folds THEN [SS_St(env, "stopped") EXCEPT !.stuck = TRUE]
    ELSE
    LET fs == env.folds[i.x] IN
    IF fs.idx >= Len(fs.src.v.q) THEN
        (IF fs.last.op # "none" THEN SS_Eval(fs.last, env) ELSE SS_St(env, "done"))
    ELSE
    LET mine == env.sc
        b == SS_Iter(env, i.x, fs.idx + 1) IN
    \* back in this iteration: its own bindings again, the cursor restored
    [b EXCEPT !.sc = mine, !.folds[i.x].idx = fs.idx]

SS_Eval(i, env) ==
    CASE i.op = "call"     -> SS_Call(i, env)
      [] i.op = "seq"      -> SS_Seq(i, env)
      [] i.op = "par"      -> SS_Par(i, env)
      [] i.op = "xor"      -> SS_Xor(i, env)
      [] i.op = "null"     -> SS_St(env, "done")
      [] i.op = "never"    -> SS_St(env, "stopped")
      [] i.op = "fail"     -> SS_St(env, "failed")
      [] i.op = "match"    -> SS_Match(i, env, TRUE)
      [] i.op = "mismatch" -> SS_Match(i, env, FALSE)
      [] i.op = "ap"       -> SS_Ap(i, env)
      [] i.op = "new"      -> SS_New(i, env)
      [] i.op = "fold"     -> SS_Fold(i, env)
      [] i.op = "next"     -> SS_Next(i, env)
      [] OTHER             -> [SS_St(env, "stopped") EXCEPT !.stuck = TRUE]

SeqRun(script, init) ==
    SS_Eval(script, [init |-> init, sc |-> <<>>, folds |-> <<>>, calls |-> <<>>, catches |-> <<>>, tr |-> <<>>, st |-> "done", stuck |-> FALSE])

\* ---------------------------------------------------------------------------
\* the fragment of C16: only these instructions / operands, and every instruction that can fail sits in
\* the left branch of an xor with no par in between
SS_OpndOk(o) == o.o \in {"lit", "peer", "init", "empty"} \/ (o.o = "var" /\ SubSeq(o.n, 1, 1) \notin {"$", "%", "#"}
                                                              /\ \A j \in 1..Len(o.lens) : o.lens[j].lk \in {"field", "idx", "len"})
SS_HasLens(o) == o.o = "var" /\ Len(o.lens) > 0
RECURSIVE InFragment(_, _)
\* guarded: failures of this instruction are caught
InFragment(i, guarded) ==
    CASE i.op = "call" ->
            /\ SS_OpndOk(i.peer) /\ SS_OpndOk(i.srv) /\ SS_OpndOk(i.fn) /\ \A j \in 1..Len(i.args) : SS_OpndOk(i.args[j])
            /\ (i.out = "" \/ SubSeq(i.out, 1, 1) \notin {"$", "%", "#"})
            /\ i.srv.o = "lit" /\ i.fn.o = "lit"
            /\ (guarded \/ (i.srv.v.s \notin {"e", "junk"} /\ ~SS_HasLens(i.peer) /\ \A j \in 1..Len(i.args) : ~SS_HasLens(i.args[j])))
      [] i.op = "seq" -> InFragment(i.l, guarded) /\ InFragment(i.r, guarded)
      [] i.op = "par" -> InFragment(i.l, FALSE) /\ InFragment(i.r, FALSE)
      [] i.op = "xor" -> InFragment(i.l, TRUE) /\ InFragment(i.r, guarded)
      [] i.op \in {"null", "next"} -> TRUE
      [] i.op = "never" -> TRUE
      [] i.op = "fail" -> guarded /\ i.a.o = "lit"
      [] i.op \in {"match", "mismatch"} -> guarded /\ SS_OpndOk(i.a) /\ SS_OpndOk(i.b) /\ InFragment(i.i, guarded)
      [] i.op = "ap" -> SS_OpndOk(i.src) /\ SubSeq(i.dst, 1, 1) \notin {"$", "%", "#"} /\ (guarded \/ ~SS_HasLens(i.src))
      [] i.op = "new" -> SubSeq(i.n, 1, 1) \notin {"$", "%", "#"} /\ InFragment(i.i, guarded)
      [] i.op = "fold" -> SS_OpndOk(i.it) /\ i.it.o = "var" /\ (guarded \/ ~SS_HasLens(i.it)) /\ InFragment(i.i, guarded)
                          /\ (i.last.op = "none" \/ InFragment(i.last, guarded))
      [] OTHER -> FALSE

\* ---------------------------------------------------------------------------
\* A peer's trace T follows the sequential reading S when, block by block, it is a prefix of it: a par state sits where
\* the sequential trace has a par and both its sides are prefixes of the sequential sides; a call state (request sent,
\* executed, failed) sits where the sequential trace has a call, with the same peer / service / function when it
\* carries them.  A peer that takes a branch or runs an iteration the sequential reading does not reach records a
\* state where the sequential trace has none or one of another kind.
RECURSIVE SS_BlockFollows(_, _, _, _, _, _)
SS_BlockFollows(T, ti, tend, S, si, send) ==
    IF ti >= tend THEN TRUE
    ELSE IF si >= send THEN FALSE
    ELSE LET t == T[ti]  s == S[si] IN
         IF s.k = "callfail" THEN
             \/ (t.k = "sent" /\ SS_BlockFollows(T, ti + 1, tend, S, si + 1, send))
             \/ SS_BlockFollows(T, ti, tend, S, si + 1, send)
         ELSE IF t.k = "par" THEN
             /\ s.k = "par"
             /\ ti + t.lsz + t.rsz < tend /\ t.lsz >= 0 /\ t.rsz >= 0
             /\ SS_BlockFollows(T, ti + 1, ti + 1 + t.lsz, S, si + 1, si + 1 + s.lsz)
             /\ SS_BlockFollows(T, ti + 1 + t.lsz, ti + 1 + t.lsz + t.rsz, S, si + 1 + s.lsz, si + 1 + s.lsz + s.rsz)
             /\ SS_BlockFollows(T, ti + 1 + t.lsz + t.rsz, tend, S, si + 1 + s.lsz + s.rsz, send)
         ELSE IF t.k = "sent" THEN s.k = "call" /\ SS_BlockFollows(T, ti + 1, tend, S, si + 1, send)
         ELSE IF t.k \in {"exec", "failed"} THEN
             /\ s.k = "call"
             /\ ((t.k = "exec" /\ t.vt = "unused") \/ (t.p = s.p /\ t.s = s.s /\ t.f = s.f))
             /\ SS_BlockFollows(T, ti + 1, tend, S, si + 1, send)
         ELSE FALSE
FollowsSequential(T, S) == SS_BlockFollows(T, 1, Len(T) + 1, S, 1, Len(S) + 1)

SeqCallKey(c) == <<c.p, c.srv, c.fn, c.args>>
SeqCallKeyT(c) == <<c.p, c.srv, c.fn, c.args, c.tets>>
=============================================================================
