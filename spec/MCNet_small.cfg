SPECIFICATION Spec
CONSTANTS
  MaxRuns = 7
  MaxDeliveries = 2
  MaxBogus = 1
VIEW View
INVARIANT NoViolation
CHECK_DEADLOCK FALSE
