------------------------------ MODULE ScriptGen ------------------------------
(***************************************************************************)
(* The generated script family of the design specification: every binary   *)
(* tree with K leaves over {seq, par, xor} whose leaves are drawn, by       *)
(* position, from a small alphabet of instructions.  The family is a        *)
(* SEQUENCE (built by concatenation only), so TLC never has to compare two  *)
(* syntax trees.  MCNet takes its initial states from it when no catalogue  *)
(* script is given: TLC then explores every schedule of every script of the *)
(* family, and the emitted behaviours are replayed on the real interpreter. *)
(*                                                                          *)
(* Leaf i (left to right) writes the scalar x<i> or the stream $s, and may  *)
(* read x<i-1>: reading a variable that an earlier sibling defines under    *)
(* par / xor is deliberate (joins, failed branches).                        *)
(***************************************************************************)
EXTENDS AirValues, Naturals, Sequences, TLC

LitS(s) == [o |-> "lit", v |-> Str(s)]
LitN(n) == [o |-> "lit", v |-> Num(n)]
PeerO(p) == [o |-> "peer", n |-> p]
VarO(n) == [o |-> "var", n |-> n, lens |-> <<>>]
CallS(p, srv, f, args, out) == [op |-> "call", peer |-> PeerO(p), srv |-> LitS(srv), fn |-> LitS(f), args |-> args, out |-> out]
CallI(p, f, args, out) == CallS(p, "t", f, args, out)
VarL(n, lens) == [o |-> "var", n |-> n, lens |-> lens]
FieldL(name) == [lk |-> "field", name |-> name]
IdxL(ix) == [lk |-> "idx", ix |-> ix]
MatchI(op, a, b, body) == [op |-> op, a |-> a, b |-> b, i |-> body]
ApI(src, dst) == [op |-> "ap", src |-> src, dst |-> dst]
Bin(op, l, r) == [op |-> op, l |-> l, r |-> r]
NullI == [op |-> "null"]
FailI == [op |-> "fail", a |-> LitN(7), b |-> LitS("boom")]
CanonI(p, s, c) == [op |-> "canon", peer |-> PeerO(p), s |-> s, c |-> c]
NextI(x) == [op |-> "next", x |-> x]
FoldI(it, x, body) == [op |-> "fold", it |-> VarO(it), x |-> x, i |-> body, last |-> [op |-> "none"]]

X(i) == "x" \o ToString(i)
F(i) == "f" \o ToString(i)

\* Every element of the family carries, next to its syntax tree t, the names it defines (d) and the names that have to be
\* defined textually before it (need): the parser's validator rejects a script that reads a scalar, or iterates a stream,
\* with no earlier definition in the text, whatever the control flow is.  Only scripts with need = {} are kept.
El(t, d, need) == [t |-> t, d |-> d, need |-> need]

\* the leaf alphabet at position i; `level` selects how much of it is used
Leaves(i, level) ==
    LET prev == IF i > 1 THEN <<VarO(X(i - 1))>> ELSE <<>>
        pneed == IF i > 1 THEN {X(i - 1)} ELSE {}
        base == << El(CallI("A", F(i), <<>>, X(i)), {X(i)}, {}),
                   El(CallI("B", F(i), prev, X(i)), {X(i)}, pneed),
                   El(FailI, {}, {}) >>
        strm == << El(CallI("B", F(i) \o "@$s", <<>>, "$s"), {"$s"}, {}),
                   El(CallI("A", F(i) \o "@$s", prev, "$s"), {"$s"}, pneed),
                   El(Bin("seq", CanonI("A", "$s", "#$c"), CallI("B", F(i), <<VarO("#$c")>>, "")), {"#$c"}, {}),
                   El(FoldI("$s", "i", Bin("par", CallI("B", F(i), <<VarO("i")>>, ""), NextI("i"))), {}, {"$s"}) >>
        more == << El(CallI("A", F(i), prev, ""), {}, pneed),
                   El(CallI("C", F(i), prev, X(i)), {X(i)}, pneed),
                   El(NullI, {}, {}) >>
    IN  CASE level = 1 -> base
          [] level = 2 -> base \o strm
          [] OTHER -> base \o strm \o more

Ops == <<"seq", "par", "xor">>

Cross(op, Ls, Rs) ==
    [n \in 1..(Len(Ls) * Len(Rs)) |->
        LET l == Ls[((n - 1) \div Len(Rs)) + 1]  r == Rs[((n - 1) % Len(Rs)) + 1] IN
        El(Bin(op, l.t, r.t), l.d \cup r.d, l.need \cup (r.need \ l.d))]

RECURSIVE Trees(_, _, _)
RECURSIVE Splits(_, _, _, _, _)
\* all trees with k leaves whose first leaf has position off + 1
Trees(k, off, level) == IF k = 1 THEN Leaves(off + 1, level) ELSE Splits(k, off, level, 1, 1)
Splits(k, off, level, j, o) ==
    IF j > k - 1 THEN <<>>
    ELSE IF o > Len(Ops) THEN Splits(k, off, level, j + 1, 1)
    ELSE Cross(Ops[o], Trees(j, off, level), Trees(k - j, off + j, level)) \o Splits(k, off, level, j, o + 1)

RECURSIVE UpTo(_, _)
UpTo(k, level) == IF k = 0 THEN <<>> ELSE UpTo(k - 1, level) \o Trees(k, 0, level)

(***************************************************************************)
(* The join family: every kind of instruction that reads a variable, placed *)
(* after a par whose branches produce the variables on two remote peers, so *)
(* that the reader can be reached while its operand has not arrived yet      *)
(* (it has to wait, not fail), bare and under an xor with a handler.  x is   *)
(* an object {a, b: [..], n: 1} (service "o"), y an array (service "l2").    *)
(***************************************************************************)
Readers ==
    << CallI("A", "g", <<VarO("x")>>, "r"),
       CallI("A", "g", <<VarL("x", <<FieldL("a")>>)>>, "r"),
       CallI("A", "g", <<VarL("y", <<IdxL(1)>>), VarO("x")>>, "r"),
       FoldI("y", "i", Bin("par", CallI("A", "g", <<VarO("i")>>, ""), NextI("i"))),
       [FoldI("x", "i", Bin("par", CallI("A", "g", <<VarO("i")>>, ""), NextI("i"))) EXCEPT !.it = VarL("x", <<FieldL("b")>>)],
       MatchI("match", VarL("x", <<FieldL("n")>>), LitN(1), CallI("A", "g", <<>>, "")),
       MatchI("mismatch", VarL("y", <<IdxL(0)>>), LitS("zz"), CallI("A", "g", <<>>, "")),
       Bin("seq", ApI(VarL("x", <<FieldL("a")>>), "z"), CallI("A", "g", <<VarO("z")>>, "")),
       CallS("A", "t", "g", <<VarL("y", <<IdxL(5)>>)>>, "") >>
JoinScript(reader, wrapped) ==
    Bin("seq", Bin("par", CallS("B", "o", "f1", <<>>, "x"), CallS("C", "l2", "f2", <<>>, "y")),
        Bin("seq", IF wrapped THEN Bin("xor", reader, CallI("A", "h", <<>>, "")) ELSE reader,
            CallI("A", "fin", <<>>, "")))
JoinFamily ==
    [n \in 1..(2 * Len(Readers)) |-> JoinScript(Readers[((n - 1) \div 2) + 1], (n % 2) = 0)]

(***************************************************************************)
(* The error family (level 5): a first failure F1 caught by an xor whose     *)
(* handler H may itself contain tolerated or caught failures, followed by a  *)
(* second failure F2, caught by an xor whose handler reports %last_error% /  *)
(* :error: to a service, or left uncaught.  Everything runs on peer A; what  *)
(* varies is the state of the two error descriptors when F2 happens.         *)
(***************************************************************************)
ErrLens(o) == [o |-> o, lens |-> <<FieldL("error_code")>>]
Failing(tag) ==
    << CallS("A", "e", tag \o "e", <<>>, ""),
       [op |-> "fail", a |-> LitN(3), b |-> LitS("boom")],
       MatchI("match", LitS("a"), LitS("b"), NullI),
       MatchI("mismatch", LitS("a"), LitS("a"), NullI),
       CallS("A", "t", tag \o "l", <<VarL("v", <<IdxL(7)>>)>>, "") >>
Handlers ==
    << NullI,
       CallI("A", "h", <<ErrLens("err")>>, ""),
       Bin("par", CallS("A", "e", "he", <<>>, ""), CallI("A", "h", <<>>, "")),
       Bin("par", CallI("A", "h", <<>>, ""), [op |-> "fail", a |-> LitN(4), b |-> LitS("inner")]),
       Bin("xor", CallS("A", "e", "he", <<>>, ""), NullI),
       Bin("xor", MatchI("match", LitS("a"), LitS("b"), NullI), CallI("A", "h", <<ErrLens("lasterr")>>, "")),
       Bin("seq", CallI("A", "h", <<>>, ""), Bin("par", NullI, CallS("A", "e", "he", <<>>, ""))) >>
Reports ==
    << CallI("A", "report", <<ErrLens("err"), ErrLens("lasterr")>>, ""),
       [op |-> "fail", a |-> [o |-> "err", lens |-> <<>>], b |-> [o |-> "empty"]],
       [op |-> "fail", a |-> [o |-> "lasterr", lens |-> <<>>], b |-> [o |-> "empty"]] >>
ErrScript(f1, h, f2, rep) ==
    Bin("seq", CallS("A", "l2", "v", <<>>, "v"),
        Bin("seq", Bin("xor", f1, h),
            Bin("seq", IF rep = 0 THEN f2 ELSE Bin("xor", f2, Reports[rep]),
                CallI("A", "fin", <<ErrLens("err"), ErrLens("lasterr")>>, ""))))
ErrorFamily ==
    LET nf == Len(Failing("x"))  nh == Len(Handlers)  nr == Len(Reports) + 1
        total == nf * nh * nf * nr IN
    [n \in 1..total |->
        LET a == (n - 1) % nf
            b == ((n - 1) \div nf) % nh
            c == ((n - 1) \div (nf * nh)) % nf
            d == (n - 1) \div (nf * nh * nf) IN
        ErrScript(Failing("p")[a + 1], Handlers[b + 1], Failing("q")[c + 1], d)]

\* the family: all well-scoped scripts with at most k leaves (level 4: the join family, level 5: the error family)
Family(k, level) ==
    IF level = 4 THEN JoinFamily ELSE IF level = 5 THEN ErrorFamily ELSE
    LET all == SelectSeq(UpTo(k, level), LAMBDA e : e.need = {}) IN [n \in 1..Len(all) |-> all[n].t]
PeersOf(level) == IF level >= 3 THEN <<"A", "B", "C">> ELSE <<"A", "B">>
EntryOf(script, level) == [script |-> script, init |-> "A", peers |-> PeersOf(level)]
=============================================================================
