------------------------------- MODULE Props -------------------------------
(***************************************************************************)
(* The listed properties as operators over the protocol state (AquaNet)    *)
(* and one step record.  The same operators are INVARIANTs of the design    *)
(* specification (MCNet: the step's outcome computed by the model           *)
(* interpreter) and of the trace specification (TraceNet: the outcome       *)
(* logged from the real air::execute_air).                                  *)
(*                                                                          *)
(* A step record e has: peer, kind, cur, res (results handed in: id, rc,    *)
(* v, srv, fn, body), out (code, eqprev, decodes, empty, ver, data, next,   *)
(* reqs, flags, store_ok, refs_ok, sig, died, ...), probes.  `pre` is the   *)
(* protocol state before the step.                                          *)
(***************************************************************************)
EXTENDS Naturals, Integers, Sequences, FiniteSets, AirValues, AquaNet

Class(code) ==
    IF code = 0 THEN "ok"
    ELSE IF code >= 1 /\ code <= 9999 THEN "prep"
    ELSE IF code >= 10000 /\ code <= 19999 THEN "catch"
    ELSE IF code >= 20000 /\ code <= 29999 THEN "uncatch"
    ELSE IF code = 30000 THEN "unproc"
    ELSE "other"

ReturnsNewData(code) == Class(code) \in {"ok", "catch", "unproc"}

(***************************************************************************)
(* Versions: <<major, minor, patch, pre>>; minimal supported 0.61.0         *)
(* (docs/update-guide.md, preparation_step/interpreter_versions.rs).        *)
(* Pre-release ordering is only needed for C21 (module Version).            *)
(***************************************************************************)
MinVersion == <<0, 61, 0>>
VersionAtLeastMin(v) ==
    \/ v[1] > MinVersion[1]
    \/ (v[1] = MinVersion[1] /\ v[2] > MinVersion[2])
    \/ (v[1] = MinVersion[1] /\ v[2] = MinVersion[2] /\ v[3] > MinVersion[3])
    \/ (v[1] = MinVersion[1] /\ v[2] = MinVersion[2] /\ v[3] = MinVersion[3] /\ v[4] = "")

Died(e) == e.out.died # ""

(***************************************************************************)
(* A host result r handed in at peer p is recorded in trace tr.            *)
(***************************************************************************)
Recorded(r, p, tr) ==
    IF r.rc = 0 /\ r.v.t # "raw" THEN
        \E i \in Indices(tr) :
            /\ tr[i].k = "exec"
            /\ tr[i].v = r.v
            /\ (tr[i].vt # "unused" => tr[i].p = p /\ tr[i].s = r.srv /\ tr[i].f = r.fn)
    ELSE
        \E i \in Indices(tr) :
            /\ tr[i].k = "failed" /\ tr[i].p = p /\ tr[i].s = r.srv /\ tr[i].f = r.fn
            /\ (r.rc # 0 => tr[i].v = FailedValue(r.rc, r.body))

PendingIds(pre, p) == {r.id : r \in pre.pending[p]}
\* results of this step that answer a pending request (the others are "bogus")
RealResults(pre, e) == {i \in 1..Len(e.res) : e.res[i].id \in PendingIds(pre, e.peer)}
BogusResults(pre, e) == {i \in 1..Len(e.res) : e.res[i].id \notin PendingIds(pre, e.peer)}

(***************************************************************************)
(* C02  failed runs return the previous data untouched; outcomes follow    *)
(*      the code ranges                                                     *)
(***************************************************************************)
C02(pre, e) ==
    LET o == e.out  cls == Class(o.code) IN
    ~Died(e) =>
        /\ cls # "other"
        /\ cls \in {"prep", "uncatch"} => o.eqprev /\ Len(o.next) = 0 /\ Len(o.reqs) = 0
        /\ ReturnsNewData(o.code) =>
              /\ o.decodes /\ ~o.empty /\ VersionAtLeastMin(o.ver)
              /\ \A i \in RealResults(pre, e) : Recorded(e.res[i], e.peer, o.data.trace)

(***************************************************************************)
(* C03  every produced data is accepted and verifiable by any other peer   *)
(***************************************************************************)
SigOf(o, q) == {i \in 1..Len(o.sig) : o.sig[i].n = q}
C03(pre, e) ==
    LET o == e.out IN
    (~Died(e) /\ ReturnsNewData(o.code)) =>
        /\ o.decodes /\ VersionAtLeastMin(o.ver)
        /\ o.store_ok /\ o.refs_ok
        /\ \A q \in AttributedPeers(o.data.trace) :
              \E i \in SigOf(o, q) : o.sig[i].present /\ o.sig[i].ok
        /\ \A i \in 1..Len(o.sig) : o.sig[i].present => o.sig[i].ok
        /\ \E i \in SigOf(o, e.peer) : o.sig[i].present /\ o.sig[i].ok
        /\ e.probes.fresh.done => (~e.probes.fresh.died /\ Class(e.probes.fresh.code) # "prep")

(***************************************************************************)
(* C04  honest executions never hit data-consistency errors                *)
(*  prep: 2 DataDeFailed 3 EnvelopeDeFailed 4 EnvelopeDeFailedWithVersions  *)
(*        8 CidStoreVerificationError 9 DataSignatureCheckError             *)
(*  uncatchable: 20000 TraceError 20001 GenerationCompactification          *)
(*        20003 FoldStateNotFound 20006 CallResultNotCorrespondToInstr      *)
(*        20008 ScalarsStateCorrupted 20010 ValueForCidNotFound             *)
(*        20011 StreamDontHaveSuchGeneration 20012 MalformedCallServiceFailed*)
(*        20017 InstructionParametersMismatch                               *)
(***************************************************************************)
ConsistencyErrorCodes ==
    {2, 3, 4, 8, 9, 20000, 20001, 20003, 20006, 20008, 20010, 20011, 20012, 20017}
C04(pre, e) == ~Died(e) => e.out.code \notin ConsistencyErrorCodes
\* the observer merges of C08 are honest executions too
C04obs(e) == \A i \in 1..Len(e.results) : \A j \in 1..Len(e.results[i].codes) :
                e.results[i].codes[j] \notin ConsistencyErrorCodes /\ e.results[i].codes[j] # -1

(***************************************************************************)
(* C05  each service call runs exactly once and its result is never lost   *)
(*  Bag formulation, per peer p and per request key k = (srv, fn, args):    *)
(*  every request ever handed to p's host is represented exactly once in    *)
(*  p's stored trace - as the pending RequestSentBy(p, id) or as its        *)
(*  recorded result.  Results of calls without output carry no tetraplet,   *)
(*  they are matched by value (which can only make the check weaker).       *)
(***************************************************************************)
KeyOf(r) == <<r.srv, r.fn, r.args>>
IssuedWithKey(post, p, key) == {i \in 1..Len(post.issued[p]) : KeyOf(post.issued[p][i]) = key}
IdsWithKey(post, p, key) == {post.issued[p][i].id : i \in IssuedWithKey(post, p, key)}
PendStates(tr, p, ids) == {i \in Indices(tr) : tr[i].k = "sent" /\ tr[i].by = p /\ tr[i].id \in ids}
ResStates(tr, p, key) ==
    {i \in Indices(tr) : tr[i].k \in {"exec", "failed"} /\ tr[i].p = p /\ tr[i].s = key[1] /\ tr[i].f = key[2]
                         /\ tr[i].ah = Arr(key[3])}
UnusedStates(tr, key) ==
    LET sv == Service(key[1], key[2], key[3]) IN
    {i \in Indices(tr) : tr[i].k = "exec" /\ tr[i].vt = "unused" /\ sv.rc = 0 /\ tr[i].v = sv.v}

C05(pre, post, e) ==
    LET p == e.peer  tr == post.store[p].trace IN
    (~Died(e) /\ Class(e.out.code) \in {"ok", "unproc"}) =>
        \A key \in {KeyOf(post.issued[p][i]) : i \in 1..Len(post.issued[p])} :
            LET n  == Cardinality(IssuedWithKey(post, p, key))
                pn == Cardinality(PendStates(tr, p, IdsWithKey(post, p, key)))
                rn == Cardinality(ResStates(tr, p, key))
                un == Cardinality(UnusedStates(tr, key))
            IN pn + rn <= n /\ n <= pn + rn + un
\* a request whose result was handed in in this step is no longer pending in the new data
C05answered(pre, e) ==
    (~Died(e) /\ Class(e.out.code) \in {"ok", "unproc"}) =>
        \A i \in RealResults(pre, e) :
            \A j \in Indices(e.out.data.trace) :
                LET s == e.out.data.trace[j] IN ~(s.k = "sent" /\ s.by = e.peer /\ s.id = e.res[i].id)

(***************************************************************************)
(* C06  request ids are fresh; results reach the call that requested them; *)
(*      results under unknown ids are reported, not dropped                 *)
(***************************************************************************)
C06a(pre, e) ==
    LET p == e.peer IN
    \A i \in 1..Len(e.out.reqs) :
        /\ \A j \in 1..Len(pre.issued[p]) : e.out.reqs[i].id > pre.issued[p][j].id
        /\ \A j \in 1..Len(e.out.reqs) : i # j => e.out.reqs[i].id # e.out.reqs[j].id
\* the content recorded at a call attributed to this peer is what the service returns for that call
C06b(pre, post, e) ==
    LET p == e.peer  tr == post.store[p].trace IN
    (~Died(e) /\ ReturnsNewData(e.out.code)) =>
        \A i \in Indices(tr) :
            \* every recorded result whose call arguments are known, whichever peer it is attributed to:
            \* a result applied to another peer's pending call shows up as a foreign state with the wrong content
            (tr[i].k \in {"exec", "failed"} /\ (tr[i].k = "failed" \/ tr[i].vt # "unused") /\ tr[i].ah.t = "a"
             /\ ServiceKnown(tr[i].s)) =>
                LET sv == Service(tr[i].s, tr[i].f, tr[i].ah.q) IN
                IF sv.rc = 0 /\ sv.v.t # "raw" THEN tr[i].k = "exec" /\ tr[i].v = sv.v
                ELSE tr[i].k = "failed" /\ (sv.rc # 0 => tr[i].v = FailedValue(sv.rc, sv.body))
\* a result under an id that matches no pending call: code 30000 (when the run otherwise succeeds), value nowhere
C06c(pre, e) ==
    LET b == BogusResults(pre, e) IN
    (~Died(e) /\ b # {}) =>
        /\ e.out.code # 0
        /\ ReturnsNewData(e.out.code) =>
              \A i \in b : \A j \in Indices(e.out.data.trace) :
                  e.out.data.trace[j].k = "exec" => e.out.data.trace[j].v # e.res[i].v
\* results handed in only for requests that really are pending are all applied: none of them is reported as
\* unprocessed (the peer must not have forgotten its own pending mark)
C06d(pre, e) ==
    (~Died(e) /\ BogusResults(pre, e) = {} /\ RealResults(pre, e) # {}) => e.out.code # 30000
C06(pre, post, e) == C06a(pre, e) /\ C06b(pre, post, e) /\ C06c(pre, e) /\ C06d(pre, e)

(***************************************************************************)
(* C07  re-delivering already merged data changes nothing                  *)
(***************************************************************************)
C07(pre, e) ==
    (~Died(e) /\ e.out.code = 0) =>
        \A i \in 1..Len(e.probes.idem) :
            LET q == e.probes.idem[i] IN
            /\ ~q.died /\ q.code = 0
            /\ q.td = e.out.td /\ q.nreq = 0 /\ q.nnext = 0

(***************************************************************************)
(* C09  merging never forgets a result                                     *)
(***************************************************************************)
C09(pre, e) ==
    (~Died(e) /\ e.out.code = 0) =>
        /\ BagSubset(Results(pre.store[e.peer].trace), Results(e.out.data.trace))
        /\ BagSubset(Results(CurData(pre, e.cur).trace), Results(e.out.data.trace))

\* the observer merges are runs too: when every merge step succeeded, the final data holds every result
\* of every datum that was merged
C09obs(s, e) ==
    \A i \in 1..Len(e.results) :
        (\A j \in 1..Len(e.results[i].codes) : e.results[i].codes[j] = 0) =>
            \A m \in 1..Len(e.set) :
                BagSubset(Results(s.sent[e.set[m][1]][e.set[m][2]].trace), Results(e.results[i].data.trace))

(***************************************************************************)
(* C10  produced traces are structurally well formed                       *)
(***************************************************************************)
C10(pre, e) == (~Died(e) /\ ReturnsNewData(e.out.code)) => WF(e.out.data.trace)
C10obs(e) == \A i \in 1..Len(e.results) : WF(e.results[i].data.trace)

(***************************************************************************)
(* C19  calls run only where addressed; the particle is forwarded exactly  *)
(*      where needed (model-free parts: b, weak c, d; a and full c need    *)
(*      the annotator and live in PropsModel)                              *)
(***************************************************************************)
NewPendingByMe(pre, e) ==
    LET p == e.peer
        cnt(tr) == Cardinality({i \in Indices(tr) : (tr[i].k = "sent" /\ tr[i].by = p /\ tr[i].id = -1)
                                                     \/ (tr[i].k = "csent" /\ tr[i].by = p)})
    IN cnt(e.out.data.trace) > cnt(pre.store[p].trace) + cnt(CurData(pre, e.cur).trace)
C19b(pre, e) == ~Died(e) => (~e.out.next_dup /\ \A i \in 1..Len(e.out.next) : e.out.next[i] # e.peer)
C19cWeak(pre, e) == (~Died(e) /\ ReturnsNewData(e.out.code) /\ NewPendingByMe(pre, e)) => Len(e.out.next) > 0
\* requests only for calls whose result ends up attributed to this peer (with C02's Recorded clause);
\* canon results newly appearing in this run are attributed to this peer
C19aCanon(pre, e) ==
    LET p == e.peer
        canons(tr) == {tr[i].c : i \in {j \in Indices(tr) : tr[j].k = "cexec"}}
        known == canons(pre.store[p].trace) \cup canons(CurData(pre, e.cur).trace)
    IN (~Died(e) /\ ReturnsNewData(e.out.code)) =>
        \A i \in Indices(e.out.data.trace) :
            LET s == e.out.data.trace[i] IN
            (s.k = "cexec" /\ s.c \notin known) => s.p = p
C19(pre, e) == C19b(pre, e) /\ C19cWeak(pre, e) /\ C19aCanon(pre, e)
\* quiescence: all final data merged at an observer hold no request marked as sent
\* (marks written by the observer itself while it merges only say that the merged knowledge allows more
\*  progress; the property is about marks left by the participants)
LeftoverMarks(tr) == {i \in Indices(tr) : IsPending(tr[i]) /\ tr[i].by \notin {"O", "V"}}
C19d(e) ==
    e.quiescent => \A i \in 1..Len(e.results) : LeftoverMarks(e.results[i].data.trace) = {}

(***************************************************************************)
(* C11 / C12  stream order (model-free parts).  A stream value is an        *)
(* executed call state with vt = "stream"; its content is (v, p, s, f);     *)
(* sn names the stream (generator convention: the function name of a call   *)
(* that writes to $s ends with "@$s").                                       *)
(***************************************************************************)
StreamIdx(tr) == {i \in Indices(tr) : tr[i].k = "exec" /\ tr[i].vt = "stream"}
Content(s) == <<s.v, s.p, s.s, s.f>>
UniqueIn(tr, i) == \A j \in StreamIdx(tr) : j # i => Content(tr[j]) # Content(tr[i])
FindContent(tr, c) == {j \in StreamIdx(tr) : Content(tr[j]) = c}

\* C11 (order): a canon created in this run lists the values in the order of their generations in this
\* peer's own output
C11order(pre, e) ==
    LET p == e.peer  tr == e.out.data.trace
        canons(t) == {t[i].c : i \in {j \in Indices(t) : t[j].k = "cexec"}}
        known == canons(pre.store[p].trace) \cup canons(CurData(pre, e.cur).trace)
        GenOf(el) == LET hits == {j \in StreamIdx(tr) : Content(tr[j]) = <<el.v, el.p, el.s, el.f>>} IN
                     IF Cardinality(hits) = 1 THEN tr[CHOOSE j \in hits : TRUE].g ELSE -1
    IN (~Died(e) /\ ReturnsNewData(e.out.code)) =>
        \A i \in Indices(tr) :
            (tr[i].k = "cexec" /\ tr[i].c \notin known) =>
                \A a, b \in 1..Len(tr[i].vals) :
                    (a < b /\ GenOf(tr[i].vals[a]) >= 0 /\ GenOf(tr[i].vals[b]) >= 0) => GenOf(tr[i].vals[a]) <= GenOf(tr[i].vals[b])

\* C12: between two consecutive data of one peer the stream values keep their relative order; values that are
\* new to the peer come after the ones it had, values received before values produced in the run.
\* (scripts that re-scope a stream with `new` reuse the name for different streams: not judged model-free)
C12(pre, e) ==
    LET p == e.peer
        d1 == pre.store[p].trace
        cu == CurData(pre, e.cur).trace
        d2 == e.out.data.trace
        Gen2(c) == d2[CHOOSE j \in FindContent(d2, c) : TRUE].g
        Has(tr, c) == FindContent(tr, c) # {}
        okContent(tr, i) == tr[i].sn # "" /\ UniqueIn(tr, i)
    IN (~Died(e) /\ e.out.code = 0) =>
        /\ \A x, y \in StreamIdx(d1) :
              (x # y /\ d1[x].sn = d1[y].sn /\ okContent(d1, x) /\ okContent(d1, y)
                 /\ Cardinality(FindContent(d2, Content(d1[x]))) = 1 /\ Cardinality(FindContent(d2, Content(d1[y]))) = 1
                 /\ d1[x].g < d1[y].g)
              => Gen2(Content(d1[x])) < Gen2(Content(d1[y]))
        /\ \A x \in StreamIdx(d1) : \A y \in StreamIdx(d2) :
              (d1[x].sn = d2[y].sn /\ okContent(d1, x) /\ okContent(d2, y) /\ ~Has(d1, Content(d2[y]))
                 /\ Cardinality(FindContent(d2, Content(d1[x]))) = 1)
              => Gen2(Content(d1[x])) < d2[y].g
        /\ \A x, y \in StreamIdx(d2) :
              (x # y /\ d2[x].sn = d2[y].sn /\ okContent(d2, x) /\ okContent(d2, y)
                 /\ ~Has(d1, Content(d2[x])) /\ ~Has(d1, Content(d2[y]))
                 /\ Has(cu, Content(d2[x])) /\ ~Has(cu, Content(d2[y])))
              => d2[x].g < d2[y].g

(***************************************************************************)
(* C20  execution is deterministic                                         *)
(***************************************************************************)
C20(pre, e) ==
    (~Died(e) /\ e.probes.rerun.done) =>
        LET q == e.probes.rerun IN
        /\ q.code = e.out.code /\ q.msg_eq /\ q.digest = e.out.digest
        /\ q.reqs_eq /\ q.next = e.out.next /\ q.flags = e.out.flags
        \* and the same inputs re-executed in a fresh process (other hash seeds, no state left over from earlier runs)
        /\ e.probes.rerun_fresh.done =>
              LET f == e.probes.rerun_fresh IN
              /\ ~f.died /\ f.code = e.out.code /\ f.msgd = e.out.msgd /\ f.digest = e.out.digest
              /\ f.reqsd = e.out.reqsd /\ f.next = e.out.next

(***************************************************************************)
(* C27  data and call encodings round-trip (probe part)                    *)
(***************************************************************************)
C27(pre, e) ==
    (~Died(e) /\ e.probes.recode.done) =>
        LET q == e.probes.recode IN q.data_rt /\ q.ver_readable /\ q.reqs_rt /\ q.res_rt /\ e.out.reqs_ok

(***************************************************************************)
(* C08  merge results do not depend on delivery order or grouping          *)
(*  e.results: the distinct outcomes of merging one set of data in every   *)
(*  order / grouping at a fresh observer.                                   *)
(***************************************************************************)
SameKnowledge(t1, t2) == BagEq(Results(t1), Results(t2))
C08(e) ==
    \A i, j \in 1..Len(e.results) :
        LET t1 == e.results[i].data.trace  t2 == e.results[j].data.trace IN
        /\ SameKnowledge(t1, t2)
        /\ (~HasStreams(t1) /\ ~HasStreams(t2)) => EquivModuloSenders(t1, t2)

=============================================================================
