----------------------------- MODULE AirInterp -----------------------------
(***************************************************************************)
(* Interpreter layer: the run function                                      *)
(*   Interp(script, me, init, prev, cur, results) -> outcome                *)
(* transcribed from the Rust code on abstract data, shaped like the code:   *)
(* one operator per critical function, same flat trace, same two sliders,   *)
(* same call merge table, same par bookkeeping, same completeness / join /  *)
(* xor rules, same scalar scoping by depth, same request-id allocation.     *)
(*                                                                          *)
(*  trace_slider.rs: NextState, SetSubtraceLen, SetPositionAndLen           *)
(*  merger/call_merger.rs: MergeCallResults, TryMergeNextStateAsCall         *)
(*  state_automata/par_fsm*: ParStart, ParLeftCompleted, ParRightCompleted   *)
(*  execution_step/instructions/*.rs: ExecCall, ExecSeq, ExecPar, ExecXor .. *)
(*  execution_context/scalar_variables*: SetValue, GetValue, Meet*           *)
(*  farewell_step/outcome.rs: Interp's last step                             *)
(*                                                                          *)
(* Stage 1 covers: call (scalar / no output), seq, par, xor, null, never,   *)
(* fail (literal), match, mismatch, ap (scalar), new (scalar), fold over a  *)
(* scalar with next (and instructions after next), lenses by field/index.   *)
(* Anything else sets ctx.unsup and the run is reported as                  *)
(* "model_unsupported" (never a verdict).                                   *)
(***************************************************************************)
EXTENDS Naturals, Integers, Sequences, FiniteSets, TLC, AirValues, AirData

\* ---------------------------------------------------------------------------
\* error values (never TLC exceptions)
NoErr == [cls |-> "none", code |-> 0]
Catch(code) == [cls |-> "catch", code |-> code]
Uncatch(code) == [cls |-> "uncatch", code |-> code]
Failed(ctx) == ctx.err.cls # "none"
\* resolution errors: codes from 20000 are uncatchable
ErrOf(code) == IF code >= 20000 THEN Uncatch(code) ELSE Catch(code)

E_LocalService == 10000
E_Match == 10001
E_Mismatch == 10002
E_VariableNotFound == 10003
E_FoldNonArray == 10005
E_UserError == 10006
E_Lambda == 10007
E_NotInitAfterNew == 10009
E_LengthOfNonArray == 10010
E_NonStringTriplet == 10011
U_Trace == 20000
U_FoldStateNotFound == 20003
U_IterableShadowing == 20004
U_MultipleIterable == 20005
U_ResultNotCorrespond == 20006
U_Shadowing == 20007
U_ScalarsCorrupted == 20008
U_ParamsMismatch == 20017

\* ---------------------------------------------------------------------------
\* trace sliders (trace_slider.rs); pos is 0-based as in the code
Slider(tr) == [pos |-> 0, len |-> Len(tr), seen |-> 0]

\* next_state: [has, st, sl]
NextState(tr, sl) ==
    IF sl.seen >= sl.len \/ sl.pos >= Len(tr)
    THEN [has |-> FALSE, st |-> [k |-> "none"], sl |-> sl]
    ELSE [has |-> TRUE, st |-> tr[sl.pos + 1], sl |-> [sl EXCEPT !.pos = @ + 1, !.seen = @ + 1]]

Remaining(sl) == sl.len - sl.seen      \* subtrace_len()

\* set_subtrace_len: [ok, sl]
SetSubtraceLen(tr, sl, n) ==
    IF Len(tr) - sl.pos < n THEN [ok |-> FALSE, sl |-> sl]
    ELSE [ok |-> TRUE, sl |-> [sl EXCEPT !.len = n, !.seen = 0]]

\* set_position_and_len: [ok, sl]  (callers that ignore the error keep the old slider)
SetPositionAndLen(tr, sl, p, n) ==
    IF n # 0 /\ p + n > Len(tr) THEN [ok |-> FALSE, sl |-> sl]
    ELSE [ok |-> TRUE, sl |-> [pos |-> p, len |-> n, seen |-> 0]]

\* ---------------------------------------------------------------------------
\* content id of a result in the model: equal contents <=> equal ids (C25 is the code-side counterpart)
Cid(kind, v, p, s, f, ah) == ToString(<<kind, v, p, s, f, ah>>)

ExecState(vt, v, p, s, f, args) ==
    [k |-> "exec", vt |-> vt, c |-> Cid("sr", v, p, s, f, Arr(args)), g |-> -1, v |-> v, p |-> p, s |-> s, f |-> f,
     lens |-> "", ah |-> Arr(args)]
UnusedState(v) ==
    [k |-> "exec", vt |-> "unused", c |-> Cid("val", v, "", "", "", V("h", "", <<>>)), g |-> -1, v |-> v,
     p |-> "", s |-> "", f |-> "", lens |-> "", ah |-> V("h", "", <<>>)]
FailedState(v, p, s, f, args) ==
    [k |-> "failed", c |-> Cid("sr", v, p, s, f, Arr(args)), v |-> v, p |-> p, s |-> s, f |-> f,
     lens |-> "", ah |-> Arr(args)]
SentState(by, id) == [k |-> "sent", by |-> by, id |-> id]
ParState(l, r) == [k |-> "par", lsz |-> l, rsz |-> r]

\* ---------------------------------------------------------------------------
\* call merge table (call_merger.rs merge_call_results): [ok, st, src]
IsSent(s) == s.k = "sent"
IsCallState(s) == s.k \in {"sent", "exec", "failed"}
SameResult(a, b) == a.k = b.k /\ a.c = b.c /\ (a.k = "exec" => a.vt = b.vt)

MergeCallResults(p, c) ==
    CASE p.k = "failed" /\ c.k = "failed" ->
            IF SameResult(p, c) THEN [ok |-> TRUE, st |-> p, src |-> "prev"] ELSE [ok |-> FALSE, st |-> p, src |-> "prev"]
      [] IsSent(p) /\ c.k = "failed" -> [ok |-> TRUE, st |-> c, src |-> "cur"]
      [] p.k = "failed" /\ IsSent(c) -> [ok |-> TRUE, st |-> p, src |-> "prev"]
      [] IsSent(p) /\ IsSent(c)      -> [ok |-> TRUE, st |-> p, src |-> "prev"]
      [] IsSent(p) /\ c.k = "exec"   -> [ok |-> TRUE, st |-> c, src |-> "cur"]
      [] p.k = "exec" /\ IsSent(c)   -> [ok |-> TRUE, st |-> p, src |-> "prev"]
      [] p.k = "exec" /\ c.k = "exec" ->
            IF SameResult(p, c) THEN [ok |-> TRUE, st |-> p, src |-> "prev"] ELSE [ok |-> FALSE, st |-> p, src |-> "prev"]
      [] OTHER -> [ok |-> FALSE, st |-> p, src |-> "prev"]

\* try_merge_next_state_as_call: advances both sliders; [ctx, met, ok, st, src]
TryMergeNextStateAsCall(ctx) ==
    LET pn == NextState(ctx.pt, ctx.ps)
        cn == NextState(ctx.ct, ctx.cs)
        c2 == [ctx EXCEPT !.ps = pn.sl, !.cs = cn.sl]
    IN  IF pn.has /\ cn.has THEN
            IF IsCallState(pn.st) /\ IsCallState(cn.st)
            THEN LET m == MergeCallResults(pn.st, cn.st) IN [ctx |-> c2, met |-> TRUE, ok |-> m.ok, st |-> m.st, src |-> m.src]
            ELSE [ctx |-> c2, met |-> TRUE, ok |-> FALSE, st |-> pn.st, src |-> "prev"]
        ELSE IF cn.has THEN
            [ctx |-> c2, met |-> TRUE, ok |-> IsCallState(cn.st), st |-> cn.st, src |-> "cur"]
        ELSE IF pn.has THEN
            [ctx |-> c2, met |-> TRUE, ok |-> IsCallState(pn.st), st |-> pn.st, src |-> "prev"]
        ELSE [ctx |-> c2, met |-> FALSE, ok |-> TRUE, st |-> [k |-> "none"], src |-> "prev"]

\* ---------------------------------------------------------------------------
\* scalars (values_sparse_matrix.rs).  sc: name -> sequence of cells [depth, set, val];
\* val = [v (value), tp (tetraplet [p, s, f, lens])]
NoVal == [v |-> Null, tp |-> [p |-> "", s |-> "", f |-> "", lens |-> ""]]
Cell(d, set, val) == [depth |-> d, set |-> set, val |-> val]
HasName(ctx, n) == n \in DOMAIN ctx.sc
LastCell(ctx, n) == ctx.sc[n][Len(ctx.sc[n])]

VariableCouldBeSet(ctx, n) ==
    IF ctx.depth # 0 THEN TRUE
    ELSE IF HasName(ctx, n) THEN ~LastCell(ctx, n).set ELSE FALSE

\* get_value on the matrix: "notfound" | "uninit" | "ok"
MatrixGet(ctx, n) ==
    IF ~HasName(ctx, n) THEN [r |-> "notfound", val |-> NoVal]
    ELSE LET c == LastCell(ctx, n) IN
         IF c.depth \notin ctx.allowed THEN [r |-> "notfound", val |-> NoVal]
         ELSE IF ~c.set THEN [r |-> "uninit", val |-> NoVal]
         ELSE [r |-> "ok", val |-> c.val]

WithName(f, n, v) == [x \in (DOMAIN f) \cup {n} |-> IF x = n THEN v ELSE f[x]]
WithoutName(f, n) == [x \in (DOMAIN f) \ {n} |-> f[x]]

\* set_value: ctx with err on ShadowingIsNotAllowed
SetValue(ctx, n, val) ==
    IF ~HasName(ctx, n) THEN [ctx EXCEPT !.sc = WithName(@, n, <<Cell(ctx.depth, TRUE, val)>>)]
    ELSE IF ~VariableCouldBeSet(ctx, n) THEN [ctx EXCEPT !.err = Uncatch(U_Shadowing)]
    ELSE LET cells == ctx.sc[n]  last == cells[Len(cells)] IN
         IF last.depth = ctx.depth
         THEN [ctx EXCEPT !.sc = WithName(@, n, [cells EXCEPT ![Len(cells)] = Cell(ctx.depth, TRUE, val)])]
         ELSE [ctx EXCEPT !.sc = WithName(@, n, Append(cells, Cell(ctx.depth, TRUE, val)))]

\* cleanup_obsolete_values: pops at most one cell per name
Cleanup(ctx) ==
    LET obsolete(n) == LET c == LastCell(ctx, n) IN c.depth # 0 /\ c.depth > ctx.depth
        gone == {n \in DOMAIN ctx.sc : obsolete(n) /\ Len(ctx.sc[n]) = 1}
    IN [ctx EXCEPT !.sc = [n \in (DOMAIN ctx.sc) \ gone |->
                              IF obsolete(n) THEN SubSeq(ctx.sc[n], 1, Len(ctx.sc[n]) - 1) ELSE ctx.sc[n]]]

MeetFoldStart(ctx) == [ctx EXCEPT !.depth = @ + 1, !.allowed = @ \cup {ctx.depth + 1}]
MeetNextBefore(ctx) == [ctx EXCEPT !.depth = @ + 1, !.allowed = (@ \ {ctx.depth}) \cup {ctx.depth + 1}]
MeetNextAfter(ctx) == Cleanup([ctx EXCEPT !.depth = @ - 1, !.allowed = (@ \ {ctx.depth}) \cup {ctx.depth - 1}])
MeetFoldEnd(ctx) == Cleanup([ctx EXCEPT !.depth = @ - 1, !.allowed = @ \ {ctx.depth}])

MeetNewStart(ctx, n) ==
    IF HasName(ctx, n) THEN [ctx EXCEPT !.sc = WithName(@, n, Append(ctx.sc[n], Cell(ctx.depth, FALSE, NoVal)))]
    ELSE [ctx EXCEPT !.sc = WithName(@, n, <<Cell(ctx.depth, FALSE, NoVal)>>)]

MeetNewEnd(ctx, n) ==
    IF ~HasName(ctx, n) THEN [ctx EXCEPT !.err = Uncatch(U_ScalarsCorrupted)]
    ELSE LET cells == ctx.sc[n] IN
         IF Len(cells) >= 2 THEN
             IF cells[Len(cells)].depth = ctx.depth
             THEN [ctx EXCEPT !.sc = WithName(@, n, SubSeq(cells, 1, Len(cells) - 1))]
             ELSE [ctx EXCEPT !.sc = WithName(@, n, SubSeq(cells, 1, Len(cells) - 1)), !.err = Uncatch(U_ScalarsCorrupted)]
         ELSE IF cells[1].depth = ctx.depth THEN [ctx EXCEPT !.sc = WithoutName(@, n)]
         ELSE [ctx EXCEPT !.err = Uncatch(U_ScalarsCorrupted)]

\* ---------------------------------------------------------------------------
\* resolution of operands (resolver/resolvable_impl.rs, lambda_applier).
\* Result: [r, val] with r in "ok" | "join" (VariableNotFound: joinable) | "err" (code)
LitTetraplet(ctx) == [p |-> ctx.init, s |-> "", f |-> "", lens |-> ""]
Const(ctx, v) == [r |-> "ok", code |-> 0, val |-> [v |-> v, tp |-> LitTetraplet(ctx)]]
RJoin == [r |-> "join", code |-> E_VariableNotFound, val |-> NoVal]
RErr(code) == [r |-> "err", code |-> code, val |-> NoVal]

\* scalars::get_value: iterators shadow nothing (names are disjoint after parsing)
IterCur(ctx, n) == ctx.it[n].vals[ctx.it[n].idx]
GetValue(ctx, n) ==
    IF n \in DOMAIN ctx.it THEN
        (IF MatrixGet(ctx, n).r = "notfound" THEN [r |-> "ok", code |-> 0, val |-> IterCur(ctx, n)]
         ELSE RErr(U_IterableShadowing))   \* a scalar and an iterator with one name: uncatchable (was unreachable!(), C01)
    ELSE LET m == MatrixGet(ctx, n) IN
         IF m.r = "ok" THEN [r |-> "ok", code |-> 0, val |-> m.val]
         ELSE IF m.r = "uninit" THEN RErr(E_NotInitAfterNew)
         ELSE RJoin

LensStepText(st) ==
    IF st.lk = "field" THEN st.name
    ELSE IF st.lk = "idx" THEN "[" \o ToString(st.ix) \o "]"
    ELSE IF st.lk = "var" THEN "[" \o st.x \o "]"
    ELSE "?"
RECURSIVE LensJoin(_, _)
LensJoin(lens, i) ==
    IF i > Len(lens) THEN ""
    ELSE LensStepText(lens[i]) \o (IF i < Len(lens) THEN "." ELSE "") \o LensJoin(lens, i + 1)
LensText(lens) == IF Len(lens) = 1 /\ lens[1].lk = "len" THEN ".length" ELSE ".$." \o LensJoin(lens, 1)

PlainLens(lens) == \A i \in 1..Len(lens) : lens[i].lk \in {"field", "idx"}

\* apply_lambda_with_tetraplets on a scalar
ApplyLens(ctx, val, lens) ==
    IF Len(lens) = 1 /\ lens[1].lk = "len" THEN
        (IF IsArr(val.v) THEN [r |-> "ok", code |-> 0,
                               val |-> [v |-> Num(Len(val.v.q)), tp |-> [p |-> "", s |-> "", f |-> "", lens |-> ".length"]]]
         ELSE RErr(E_LengthOfNonArray))
    ELSE IF ~PlainLens(lens) THEN RErr(-2)     \* by-scalar accessors: not in stage 1
    ELSE LET nv == Nav(val.v, lens) IN
         IF nv.ok THEN [r |-> "ok", code |-> 0, val |-> [v |-> nv.v, tp |-> [val.tp EXCEPT !.lens = @ \o LensText(lens)]]]
         ELSE RErr(E_Lambda)

Resolve(ctx, o) ==
    CASE o.o = "lit"   -> Const(ctx, o.v)
      [] o.o = "peer"  -> Const(ctx, Str(o.n))
      [] o.o = "init"  -> Const(ctx, Str(ctx.init))
      [] o.o = "empty" -> Const(ctx, Arr(<<>>))
      [] o.o = "var"   ->
            LET g == GetValue(ctx, o.n) IN
            IF g.r # "ok" THEN g
            ELSE IF Len(o.lens) = 0 THEN g
            ELSE ApplyLens(ctx, g.val, o.lens)
      [] OTHER -> RErr(-2)

Supported(o) == o.o \in {"lit", "peer", "init", "empty"} \/ (o.o = "var" /\ \A i \in 1..Len(o.lens) : o.lens[i].lk \in {"field", "idx", "len"})

\* resolve a sequence of operands left to right; first non-ok decides
RECURSIVE ResolveAll(_, _, _, _)
ResolveAll(ctx, os, i, acc) ==
    IF i > Len(os) THEN [r |-> "ok", code |-> 0, vals |-> acc]
    ELSE LET x == Resolve(ctx, os[i]) IN
         IF x.r = "ok" THEN ResolveAll(ctx, os, i + 1, Append(acc, x.val))
         ELSE [r |-> x.r, code |-> x.code, vals |-> acc]

\* ---------------------------------------------------------------------------
\* the context threaded through Exec
InitCtx(me, init, pt, ct, lcid, results) ==
    [ me |-> me, init |-> init, pt |-> pt, ct |-> ct, ps |-> Slider(pt), cs |-> Slider(ct),
      out |-> <<>>, sc |-> <<>>, depth |-> 0, allowed |-> {0}, it |-> <<>>,
      ok |-> TRUE, nx |-> {}, rq |-> <<>>, lcid |-> lcid, res |-> results,
      err |-> NoErr, unsup |-> FALSE, kf1 |-> FALSE ]

Push(ctx, st) == [ctx EXCEPT !.out = Append(@, st)]
Incomplete(ctx) == [ctx EXCEPT !.ok = FALSE]
Raise(ctx, e) == [ctx EXCEPT !.err = e]

ResultFor(ctx, id) == {r \in ctx.res : r.id = id}

\* ---------------------------------------------------------------------------
\* call (instructions/call/*.rs)
Vals(q) == [i \in 1..Len(q) |-> q[i].v]
Tets(q) == [i \in 1..Len(q) |-> <<q[i].tp>>]

\* populate_context_from_data: stored executed value must fit the instruction's output kind
BindStored(ctx, st, out, p, s, f) ==
    IF out = "" THEN (IF st.vt = "unused" THEN ctx ELSE Raise(ctx, Uncatch(U_ResultNotCorrespond)))
    ELSE IF st.vt = "scalar" THEN SetValue(ctx, out, [v |-> st.v, tp |-> [p |-> p, s |-> s, f |-> f, lens |-> ""]])
    ELSE Raise(ctx, Uncatch(U_ResultNotCorrespond))

\* verifier.rs verify_call: stored tetraplet and argument hash must match the instruction's
ParamsMatch(st, p, s, f, args) == st.p = p /\ st.s = s /\ st.f = f /\ st.lens = "" /\ st.ah = Arr(args)

\* update_state_with_service_result
ApplyServiceResult(ctx, r, out, p, s, f, args) ==
    IF r.rc # 0 THEN
        Raise(Push(ctx, FailedState(FailedValue(r.rc, r.body), p, s, f, args)), Catch(E_LocalService))
    ELSE IF r.v.t = "raw" THEN
        \* try_to_service_result: a body that is not JSON; the stored message embeds the serde error text,
        \* which the model does not reproduce: content left opaque
        Raise(Push(ctx, FailedState(Unknown, p, s, f, args)), Catch(E_LocalService))
    ELSE IF out = "" THEN Push(ctx, UnusedState(r.v))
    ELSE LET c2 == SetValue(ctx, out, [v |-> r.v, tp |-> [p |-> p, s |-> s, f |-> f, lens |-> ""]]) IN
         IF Failed(c2) THEN c2 ELSE Push(c2, ExecState("scalar", r.v, p, s, f, args))

ExecCall(i, ctx0) ==
    LET pr == Resolve(ctx0, i.peer)
        sr == Resolve(ctx0, i.srv)
        fr == Resolve(ctx0, i.fn)
    IN
    \* ResolvedCall::new: triplet, then the output name
    IF pr.r = "join" \/ (pr.r = "ok" /\ sr.r = "join") \/ (pr.r = "ok" /\ sr.r = "ok" /\ fr.r = "join") THEN Incomplete(ctx0)
    ELSE IF pr.r = "err" THEN Raise(ctx0, ErrOf(pr.code))
    ELSE IF ~IsStr(pr.val.v) THEN Raise(ctx0, Catch(E_NonStringTriplet))
    ELSE IF sr.r = "err" THEN Raise(ctx0, ErrOf(sr.code))
    ELSE IF ~IsStr(sr.val.v) THEN Raise(ctx0, Catch(E_NonStringTriplet))
    ELSE IF fr.r = "err" THEN Raise(ctx0, ErrOf(fr.code))
    ELSE IF ~IsStr(fr.val.v) THEN Raise(ctx0, Catch(E_NonStringTriplet))
    ELSE
    LET p == pr.val.v.s  s == sr.val.v.s  f == fr.val.v.s  out == i.out
        outChk == IF out = "" THEN "ok"
                  ELSE IF out \in DOMAIN ctx0.it THEN "iter"
                  ELSE IF MatrixGet(ctx0, out).r = "ok" /\ ~VariableCouldBeSet(ctx0, out) THEN "shadow"
                  ELSE "ok"
    IN
    IF outChk = "iter" THEN Raise(ctx0, Uncatch(U_IterableShadowing))
    ELSE IF outChk = "shadow" THEN Raise(ctx0, Uncatch(U_Shadowing))
    ELSE
    LET ar == ResolveAll(ctx0, i.args, 1, <<>>) IN
    IF ar.r = "err" THEN
        \* the arguments fail for good *before* the trace is touched.  If this call was marked as sent while
        \* its arguments were still unknown (a remote call is, see ExecuteNow), that state is left unconsumed
        \* and the next instruction will meet it (known finding "args-failed-after-sent", C04); kf1 records
        \* that the next state of either trace is a call state at this moment
        LET pn == NextState(ctx0.pt, ctx0.ps)  cn == NextState(ctx0.ct, ctx0.cs) IN
        Raise([ctx0 EXCEPT !.kf1 = @ \/ (pn.has /\ IsCallState(pn.st)) \/ (cn.has /\ IsCallState(cn.st))], ErrOf(ar.code))
    ELSE
    LET argsKnown == ar.r = "ok"
        args == IF argsKnown THEN Vals(ar.vals) ELSE <<>>
        tets == IF argsKnown THEN Tets(ar.vals) ELSE <<>>
        m == TryMergeNextStateAsCall(ctx0)
        ctx == m.ctx
        local == p = ctx.me
        \* no state, or a request somebody else marked: execute now if it is mine
        ExecuteNow(c, prevState, hasPrev) ==
            IF ~local THEN
                \* handle_remote_call
                Incomplete(Push([c EXCEPT !.nx = @ \cup {p}], SentState(c.me, -1)))
            ELSE IF ~argsKnown THEN
                \* prepare_request_params hit a joinable error: keep the state, wait
                Incomplete(IF hasPrev THEN Push(c, prevState) ELSE c)
            ELSE LET id == c.lcid + 1 IN
                 Incomplete(Push([c EXCEPT !.lcid = id,
                                           !.rq = Append(@, [id |-> id, srv |-> s, fn |-> f, args |-> args, tets |-> tets])],
                                 SentState(c.me, id)))
    IN
    IF ~m.ok THEN Raise(ctx, Uncatch(U_Trace))
    ELSE IF ~m.met THEN ExecuteNow(ctx, [k |-> "none"], FALSE)
    ELSE
    LET st == m.st IN
    CASE st.k = "failed" ->
            IF ~argsKnown THEN Raise(ctx, Uncatch(-1))     \* argument_hash.unwrap() on None: panic (C01)
            ELSE IF ~ParamsMatch(st, p, s, f, args) THEN Raise(ctx, Uncatch(U_ParamsMismatch))
            ELSE Raise(Incomplete(Push(ctx, st)), Catch(E_LocalService))
      [] st.k = "sent" /\ st.by = ctx.me /\ st.id >= 0 ->
            LET rs == ResultFor(ctx, st.id) IN
            IF rs = {} THEN Incomplete(Push(ctx, st))
            ELSE IF ~argsKnown THEN Raise(ctx, Uncatch(-1))  \* expect("Result for joinable error"): panic
            ELSE LET r == CHOOSE x \in rs : TRUE IN
                 ApplyServiceResult([ctx EXCEPT !.res = @ \ rs], r, out, p, s, f, args)
      [] st.k = "sent" ->
            IF local THEN ExecuteNow(ctx, st, TRUE) ELSE Incomplete(Push(ctx, st))
      [] st.k = "exec" ->
            IF ~argsKnown THEN Raise(ctx, Uncatch(-1))
            ELSE IF st.vt # "unused" /\ ~ParamsMatch(st, p, s, f, args) THEN
                (IF (out = "") = (st.vt = "unused") /\ (st.vt = "scalar" \/ out = "") THEN Raise(ctx, Uncatch(U_ParamsMismatch))
                 ELSE Raise(ctx, Uncatch(U_ResultNotCorrespond)))
            ELSE LET c2 == BindStored(ctx, st, out, p, s, f) IN
                 IF Failed(c2) THEN c2 ELSE Push(c2, st)
      [] OTHER -> Raise(ctx, Uncatch(U_Trace))

\* ---------------------------------------------------------------------------
\* par (par.rs, par_fsm.rs, new_states_calculation.rs, par_builder.rs)
\* meet_par_start: [ctx, ok, fsm]
ParStart(ctx) ==
    LET pn == NextState(ctx.pt, ctx.ps)
        cn == NextState(ctx.ct, ctx.cs)
        okKinds == (~pn.has \/ pn.st.k = "par") /\ (~cn.has \/ cn.st.k = "par")
        pl == IF pn.has /\ pn.st.k = "par" THEN pn.st.lsz ELSE 0
        prr == IF pn.has /\ pn.st.k = "par" THEN pn.st.rsz ELSE 0
        cl == IF cn.has /\ cn.st.k = "par" THEN cn.st.lsz ELSE 0
        crr == IF cn.has /\ cn.st.k = "par" THEN cn.st.rsz ELSE 0
        \* compute_new_state for Right needs subtrace_len() - (l + r) >= 0
        under == Remaining(pn.sl) - (pl + prr) < 0 \/ Remaining(cn.sl) - (cl + crr) < 0
        fsm == [ pos |-> Len(ctx.out) + 1,            \* index of the placeholder in out
                 saved |-> Len(ctx.out) + 1,          \* result_states_count after the placeholder
                 pl |-> pl, pr |-> prr, cl |-> cl, cr |-> crr,
                 pAfterL |-> [pos |-> pn.sl.pos + pl, len |-> pl],
                 cAfterL |-> [pos |-> cn.sl.pos + cl, len |-> cl],
                 pAfterR |-> [pos |-> pn.sl.pos + pl + prr, len |-> Remaining(pn.sl) - (pl + prr)],
                 cAfterR |-> [pos |-> cn.sl.pos + cl + crr, len |-> Remaining(cn.sl) - (cl + crr)],
                 lsize |-> 0 ]
        c1 == Push([ctx EXCEPT !.ps = pn.sl, !.cs = cn.sl], ParState(0, 0))
        sp == SetSubtraceLen(ctx.pt, pn.sl, pl)
        scu == SetSubtraceLen(ctx.ct, cn.sl, cl)
    IN  IF ~okKinds \/ under \/ ~sp.ok \/ ~scu.ok THEN [ctx |-> c1, ok |-> FALSE, fsm |-> fsm]
        ELSE [ctx |-> [c1 EXCEPT !.ps = sp.sl, !.cs = scu.sl], ok |-> TRUE, fsm |-> fsm]

ParLeftCompleted(ctx, fsm) ==
    LET lsize == Len(ctx.out) - fsm.saved
        p1 == SetPositionAndLen(ctx.pt, ctx.ps, fsm.pAfterL.pos, fsm.pAfterL.len).sl
        c1 == SetPositionAndLen(ctx.ct, ctx.cs, fsm.cAfterL.pos, fsm.cAfterL.len).sl
        p2 == SetSubtraceLen(ctx.pt, p1, fsm.pr).sl
        c2 == SetSubtraceLen(ctx.ct, c1, fsm.cr).sl
    IN [ctx |-> [ctx EXCEPT !.ps = p2, !.cs = c2], fsm |-> [fsm EXCEPT !.lsize = lsize, !.saved = Len(ctx.out)]]

ParRightCompleted(ctx, fsm) ==
    LET rsize == Len(ctx.out) - fsm.saved
        p1 == SetPositionAndLen(ctx.pt, ctx.ps, fsm.pAfterR.pos, fsm.pAfterR.len).sl
        c1 == SetPositionAndLen(ctx.ct, ctx.cs, fsm.cAfterR.pos, fsm.cAfterR.len).sl
    IN [ctx EXCEPT !.out = [@ EXCEPT ![fsm.pos] = ParState(fsm.lsize, rsize)], !.ps = p1, !.cs = c1]

\* ---------------------------------------------------------------------------
RECURSIVE Exec(_, _)

ExecSeq(i, ctx) ==
    LET c1 == Exec(i.l, [ctx EXCEPT !.ok = TRUE]) IN
    IF Failed(c1) \/ ~c1.ok THEN c1 ELSE Exec(i.r, c1)

ExecXor(i, ctx) ==
    LET c1 == Exec(i.l, [ctx EXCEPT !.ok = TRUE]) IN
    IF c1.err.cls = "catch" THEN Exec(i.r, [c1 EXCEPT !.ok = TRUE, !.err = NoErr])
    ELSE c1

ExecPar(i, ctx) ==
    LET st == ParStart(ctx) IN
    IF ~st.ok THEN Raise(st.ctx, Uncatch(U_Trace))
    ELSE
    LET l0 == Exec(i.l, [st.ctx EXCEPT !.ok = (i.l.op # "next")]) IN
    IF l0.err.cls = "uncatch" THEN Incomplete(l0)
    ELSE
    LET lfailed == l0.err.cls = "catch"
        lerr == l0.err
        l1 == IF lfailed THEN [l0 EXCEPT !.ok = FALSE, !.err = NoErr] ELSE l0
        lc == ParLeftCompleted(l1, st.fsm)
        lok == l1.ok
        r0 == Exec(i.r, [lc.ctx EXCEPT !.ok = (i.r.op # "next")])
    IN
    IF r0.err.cls = "uncatch" THEN Incomplete(r0)
    ELSE
    LET rfailed == r0.err.cls = "catch"
        rerr == r0.err
        r1 == IF rfailed THEN [r0 EXCEPT !.ok = FALSE, !.err = NoErr] ELSE r0
        rok == r1.ok
        done == ParRightCompleted(r1, lc.fsm)
        fin == [done EXCEPT !.ok = lok \/ rok]
    IN IF lfailed /\ rfailed THEN Raise(fin, rerr) ELSE fin

ExecMatch(i, ctx, wantEqual) ==
    LET a == Resolve(ctx, i.a)  b == Resolve(ctx, i.b) IN
    IF a.r = "join" \/ (a.r = "ok" /\ b.r = "join") THEN Incomplete(ctx)
    ELSE IF a.r = "err" THEN Raise(ctx, ErrOf(a.code))
    ELSE IF b.r = "err" THEN Raise(ctx, ErrOf(b.code))
    ELSE IF (a.val.v = b.val.v) = wantEqual THEN Exec(i.i, ctx)
    ELSE Raise(ctx, Catch(IF wantEqual THEN E_Match ELSE E_Mismatch))

ExecAp(i, ctx) ==
    LET a == Resolve(ctx, i.src) IN
    IF a.r = "join" THEN Incomplete(ctx)
    ELSE IF a.r = "err" THEN Raise(ctx, ErrOf(a.code))
    ELSE SetValue(ctx, i.dst, a.val)

ExecNew(i, ctx) ==
    LET c1 == Exec(i.i, MeetNewStart(ctx, i.n))
        c2 == MeetNewEnd([c1 EXCEPT !.err = NoErr], i.n)
    IN IF Failed(c1) THEN [c2 EXCEPT !.err = c1.err] ELSE c2

\* iterator element i of a scalar iterable: the source's tetraplet with the index appended to the lens
IterVals(val) ==
    [j \in 1..Len(val.v.q) |->
        [v |-> val.v.q[j],
         tp |-> [val.tp EXCEPT !.lens = @ \o ".$.[" \o ToString(j - 1) \o "]"]]]

ExecFold(i, ctx) ==
    LET a == Resolve(ctx, i.it) IN
    IF a.r = "join" THEN Incomplete(ctx)
    ELSE IF a.r = "err" THEN Raise(ctx, ErrOf(a.code))
    ELSE IF ~IsArr(a.val.v) THEN Raise(ctx, Catch(E_FoldNonArray))
    ELSE IF Len(a.val.v.q) = 0 THEN ctx
    ELSE IF i.x \in DOMAIN ctx.it THEN Raise(MeetFoldStart(ctx), Uncatch(U_MultipleIterable))
    ELSE
    LET c0 == MeetFoldStart(ctx)
        c1 == [c0 EXCEPT !.it = WithName(@, i.x, [vals |-> IterVals(a.val), idx |-> 1, body |-> i.i, last |-> i.last])]
        c2 == Exec(i.i, c1)
        c3 == MeetFoldEnd([c2 EXCEPT !.it = WithoutName(@, i.x)])
    IN c3

ExecNext(i, ctx) ==
    IF i.x \notin DOMAIN ctx.it THEN Raise(ctx, Uncatch(U_FoldStateNotFound))
    ELSE
    LET fs == ctx.it[i.x] IN
    IF fs.idx >= Len(fs.vals) THEN
        (IF fs.last.op # "none" THEN Exec(fs.last, [ctx EXCEPT !.ok = TRUE]) ELSE ctx)
    ELSE
    LET c1 == MeetNextBefore([ctx EXCEPT !.it[i.x].idx = @ + 1])
        c2 == Exec(fs.body, c1)
        c3 == MeetNextAfter(c2)
    IN IF Failed(c3) THEN c3 ELSE [c3 EXCEPT !.it[i.x].idx = @ - 1]

SupportedInstr(i) ==
    CASE i.op = "call" -> Supported(i.peer) /\ Supported(i.srv) /\ Supported(i.fn)
                          /\ (\A j \in 1..Len(i.args) : Supported(i.args[j]))
                          /\ (i.out = "" \/ SubSeq(i.out, 1, 1) \notin {"$", "%", "#"})
      [] i.op \in {"seq", "par", "xor", "null", "never", "next", "new"} -> TRUE
      [] i.op = "fail" -> i.a.o = "lit"
      [] i.op \in {"match", "mismatch"} -> Supported(i.a) /\ Supported(i.b)
      [] i.op = "ap" -> Supported(i.src) /\ SubSeq(i.dst, 1, 1) \notin {"$", "%", "#"}
      [] i.op = "fold" -> Supported(i.it) /\ SubSeq(i.it.n, 1, 1) \notin {"$", "%", "#"}
      [] OTHER -> FALSE

Exec(i, ctx) ==
    IF ~SupportedInstr(i) \/ (i.op = "new" /\ SubSeq(i.n, 1, 1) \in {"$", "%", "#"}) THEN
        [ctx EXCEPT !.unsup = TRUE, !.err = Uncatch(-2)]
    ELSE
    CASE i.op = "call"     -> ExecCall(i, ctx)
      [] i.op = "seq"      -> ExecSeq(i, ctx)
      [] i.op = "par"      -> ExecPar(i, ctx)
      [] i.op = "xor"      -> ExecXor(i, ctx)
      [] i.op = "null"     -> ctx
      [] i.op = "never"    -> Incomplete(ctx)
      [] i.op = "fail"     -> Raise(Incomplete(ctx), Catch(E_UserError))
      [] i.op = "match"    -> ExecMatch(i, ctx, TRUE)
      [] i.op = "mismatch" -> ExecMatch(i, ctx, FALSE)
      [] i.op = "ap"       -> ExecAp(i, ctx)
      [] i.op = "new"      -> ExecNew(i, ctx)
      [] i.op = "fold"     -> ExecFold(i, ctx)
      [] i.op = "next"     -> ExecNext(i, ctx)
      [] OTHER             -> [ctx EXCEPT !.unsup = TRUE, !.err = Uncatch(-2)]

\* ---------------------------------------------------------------------------
\* farewell (farewell_step/outcome.rs) and the whole run
NameOrder == <<"A", "B", "C", "D", "E", "M", "O", "V">>
SortedNames(S) == SelectSeq(NameOrder, LAMBDA n : n \in S)
SetOf(q) == {q[i] : i \in 1..Len(q)}

\* results: set of [id, rc, v, body]
Interp(script, me, init, prev, cur, results) ==
    LET c0 == InitCtx(me, init, prev.trace, cur.trace, prev.lcid, results)
        c1 == Exec(script, c0)
        sigs == SortedNames(SetOf(prev.sigs) \cup SetOf(cur.sigs) \cup {me})
        newData == [trace |-> c1.out, lcid |-> c1.lcid, sigs |-> sigs]
    IN  IF c1.unsup THEN [unsup |-> TRUE, kf1 |-> FALSE, code |-> -2, data |-> prev, next |-> <<>>, reqs |-> <<>>]
        ELSE IF c1.err.cls = "uncatch" THEN
            [unsup |-> FALSE, kf1 |-> c1.kf1, code |-> c1.err.code, data |-> prev, next |-> <<>>, reqs |-> <<>>]
        ELSE IF c1.err.cls = "catch" THEN
            [unsup |-> FALSE, kf1 |-> c1.kf1, code |-> c1.err.code, data |-> newData, next |-> SortedNames(c1.nx), reqs |-> c1.rq]
        ELSE
            [unsup |-> FALSE, kf1 |-> c1.kf1, code |-> IF c1.res # {} THEN 30000 ELSE 0, data |-> newData,
             next |-> SortedNames(c1.nx), reqs |-> c1.rq]

=============================================================================
