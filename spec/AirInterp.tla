----------------------------- MODULE AirInterp -----------------------------
(***************************************************************************)
(* Interpreter layer: the run function                                      *)
(*   Interp(script, me, init, prev, cur, results) -> outcome                *)
(* transcribed from the Rust code on abstract data, shaped like the code:   *)
(* one operator per critical function, same flat trace, same two sliders,   *)
(* same call merge table, same par bookkeeping, same completeness / join /  *)
(* xor rules, same scalar scoping by depth, same request-id allocation.     *)
(*                                                                          *)
(*  trace_slider.rs: NextState, SetSubtraceLen, SetPositionAndLen           *)
(*  merger/call_merger.rs: MergeCallResults, TryMergeNextStateAsCall         *)
(*  state_automata/par_fsm*: ParStart, ParLeftCompleted, ParRightCompleted   *)
(*  execution_step/instructions/*.rs: ExecCall, ExecSeq, ExecPar, ExecXor .. *)
(*  execution_context/scalar_variables*: SetValue, GetValue, Meet*           *)
(*  farewell_step/outcome.rs: Interp's last step                             *)
(*                                                                          *)
(* Stage 1: call (scalar / no output), seq, par, xor, null, never, fail     *)
(* (literal), match, mismatch, ap (scalar), new (scalar), fold over a       *)
(* scalar with next (and instructions after next), lenses by field/index.   *)
(* Stage 2: streams - call and ap into streams, the three generation        *)
(* matrices, compaction, canon, new-scoped streams, fold over a stream      *)
(* (fold FSM, lore resolution and convolution, recursive cursor), fold over *)
(* a canon stream.  (value_types/stream/*, fold_fsm*, fold_merger/*,        *)
(* ap_merger.rs, canon_merger.rs, canon_utils, streams_variables.rs)        *)
(* Anything else (stream maps, error objects as operands) sets ctx.unsup    *)
(* and the run is reported as "model_unsupported" (never a verdict).        *)
(***************************************************************************)
EXTENDS Naturals, Integers, Sequences, FiniteSets, TLC, AirValues, AirData

\* ---------------------------------------------------------------------------
\* error values (never TLC exceptions)
NoErr == [cls |-> "none", code |-> 0]
Catch(code) == [cls |-> "catch", code |-> code]
Uncatch(code) == [cls |-> "uncatch", code |-> code]
Failed(ctx) == ctx.err.cls # "none"
\* resolution errors: codes from 20000 are uncatchable
ErrOf(code) == IF code >= 20000 THEN Uncatch(code) ELSE Catch(code)

WithName(f, n, v) == [x \in (DOMAIN f) \cup {n} |-> IF x = n THEN v ELSE f[x]]
WithoutName(f, n) == [x \in (DOMAIN f) \ {n} |-> f[x]]

E_LocalService == 10000
E_Match == 10001
E_Mismatch == 10002
E_VariableNotFound == 10003
E_FoldNonArray == 10005
E_UserError == 10006
E_InvalidErrorObject == 10008
E_Lambda == 10007
E_NotInitAfterNew == 10009
E_LengthOfNonArray == 10010
E_NonStringTriplet == 10011
U_Trace == 20000
U_FoldStateNotFound == 20003
U_IterableShadowing == 20004
U_MultipleIterable == 20005
U_ResultNotCorrespond == 20006
U_Shadowing == 20007
U_ScalarsCorrupted == 20008
U_ParamsMismatch == 20017

\* ---------------------------------------------------------------------------
\* trace sliders (trace_slider.rs); pos is 0-based as in the code
Slider(tr) == [pos |-> 0, len |-> Len(tr), seen |-> 0]

\* next_state: [has, st, sl]
NextState(tr, sl) ==
    IF sl.seen >= sl.len \/ sl.pos >= Len(tr)
    THEN [has |-> FALSE, st |-> [k |-> "none"], sl |-> sl]
    ELSE [has |-> TRUE, st |-> tr[sl.pos + 1], sl |-> [sl EXCEPT !.pos = @ + 1, !.seen = @ + 1]]

Remaining(sl) == sl.len - sl.seen      \* subtrace_len()

\* set_subtrace_len: [ok, sl]
SetSubtraceLen(tr, sl, n) ==
    IF Len(tr) - sl.pos < n THEN [ok |-> FALSE, sl |-> sl]
    ELSE [ok |-> TRUE, sl |-> [sl EXCEPT !.len = n, !.seen = 0]]

\* set_position_and_len: [ok, sl]  (callers that ignore the error keep the old slider)
SetPositionAndLen(tr, sl, p, n) ==
    IF n # 0 /\ p + n > Len(tr) THEN [ok |-> FALSE, sl |-> sl]
    ELSE [ok |-> TRUE, sl |-> [pos |-> p, len |-> n, seen |-> 0]]


\* ---------------------------------------------------------------------------
\* fold lore (merger/fold_merger/*.rs): resolution by value position, convolution of lengths per generation
\* try_get_generation: the generation of the stream value a lore entry points to, or -1
GenerationAt(tr, vp) ==
    IF vp < 0 \/ vp >= Len(tr) THEN -1
    ELSE LET s == tr[vp + 1] IN
         IF s.k = "exec" /\ s.vt = "stream" THEN s.g
         ELSE IF s.k = "ap" /\ Len(s.gs) >= 1 THEN s.gs[1]
         ELSE -1
RECURSIVE ComputeBefore(_, _, _, _, _)
\* compute_before_lens over lens[begin..end], walking backwards with k
ComputeBefore(lens, begin, k, cum, afterLen) ==
    IF k < begin THEN lens
    ELSE LET c2 == cum + lens[k].b IN ComputeBefore([lens EXCEPT ![k].b = c2 + afterLen], begin, k - 1, c2, afterLen)
CloseGen(lens, begin, end) == ComputeBefore(lens, begin, end, 0, lens[end].a)
RECURSIVE Convolve(_, _, _, _, _, _, _, _)
Convolve(lore, tr, i, lastGen, lastPos, cumAfter, lens, count) ==
    IF i > Len(lore) THEN [ok |-> TRUE, lens |-> IF Len(lore) > 0 THEN CloseGen(lens, lastPos, Len(lore)) ELSE lens, count |-> count]
    ELSE IF Len(lore[i].d) # 2 THEN [ok |-> FALSE, lens |-> lens, count |-> count]
    ELSE LET g == GenerationAt(tr, lore[i].vp) IN
         IF g < 0 THEN [ok |-> FALSE, lens |-> lens, count |-> count]
         ELSE LET changed == lastGen # g
                  lens1 == IF changed /\ i > 1 THEN CloseGen(lens, lastPos, i - 1) ELSE lens
                  cum1 == (IF changed THEN 0 ELSE cumAfter) + lore[i].d[2][2]
              IN Convolve(lore, tr, i + 1, IF changed THEN g ELSE lastGen, IF changed THEN i ELSE lastPos, cum1,
                          Append(lens1, [b |-> lore[i].d[1][2], a |-> cum1]), count + lore[i].d[1][2] + lore[i].d[2][2])
\* resolve_fold_lore: [ok, lore (value position -> [b, a] resolved descriptors), count]
ResolveFoldLore(foldState, tr) ==
    LET lore == foldState.lore
        cv == Convolve(lore, tr, 1, 0, 1, 0, <<>>, 0)
        vps == {lore[i].vp : i \in 1..Len(lore)}
    IN IF ~cv.ok \/ Cardinality(vps) # Len(lore) THEN [ok |-> FALSE, lore |-> <<>>, count |-> 0]
       ELSE [ok |-> TRUE,
             lore |-> [vp \in vps |-> LET i == CHOOSE j \in 1..Len(lore) : lore[j].vp = vp IN
                                      [b |-> <<lore[i].d[1][1], cv.lens[i].b>>, a |-> <<lore[i].d[2][1], cv.lens[i].a>>]],
             count |-> cv.count]
NoFold == [ok |-> TRUE, lore |-> <<>>, count |-> 0]

\* ---------------------------------------------------------------------------
\* content id of a result in the model: equal contents <=> equal ids (C25 is the code-side counterpart)
Cid(kind, v, p, s, f, ah) == ToString(<<kind, v, p, s, f, ah>>)

ExecState(vt, v, p, s, f, args) ==
    [k |-> "exec", vt |-> vt, c |-> Cid("sr", v, p, s, f, Arr(args)), g |-> -1, v |-> v, p |-> p, s |-> s, f |-> f,
     lens |-> "", ah |-> Arr(args), sn |-> ""]
UnusedState(v) ==
    [k |-> "exec", vt |-> "unused", c |-> Cid("val", v, "", "", "", V("h", "", <<>>)), g |-> -1, v |-> v,
     p |-> "", s |-> "", f |-> "", lens |-> "", ah |-> V("h", "", <<>>), sn |-> ""]
FailedState(v, p, s, f, args) ==
    [k |-> "failed", c |-> Cid("sr", v, p, s, f, Arr(args)), v |-> v, p |-> p, s |-> s, f |-> f,
     lens |-> "", ah |-> Arr(args)]
StreamExecState(v, p, s, f, args) == [ExecState("stream", v, p, s, f, args) EXCEPT !.g = StubGeneration]
ApState == [k |-> "ap", gs |-> <<StubGeneration>>]
CanonSentState(by) == [k |-> "csent", by |-> by]
CanonElem(val) == [v |-> val.v, p |-> val.tp.p, s |-> val.tp.s, f |-> val.tp.f, lens |-> val.tp.lens, prov |-> val.prov, provc |-> ""]
CanonExecState(peer, vals) ==
    LET elems == [i \in 1..Len(vals) |-> CanonElem(vals[i])] IN
    [k |-> "cexec", c |-> ToString(<<"canon", peer, elems>>), p |-> peer, s |-> "", f |-> "", lens |-> "", vals |-> elems]
SentState(by, id) == [k |-> "sent", by |-> by, id |-> id]
ParState(l, r) == [k |-> "par", lsz |-> l, rsz |-> r]

\* ---------------------------------------------------------------------------
\* call merge table (call_merger.rs merge_call_results): [ok, st, src]
IsSent(s) == s.k = "sent"
IsCallState(s) == s.k \in {"sent", "exec", "failed"}
SameResult(a, b) == a.k = b.k /\ a.c = b.c /\ (a.k = "exec" => a.vt = b.vt)

MergeCallResults(p, c) ==
    CASE p.k = "failed" /\ c.k = "failed" ->
            IF SameResult(p, c) THEN [ok |-> TRUE, st |-> p, src |-> "prev"] ELSE [ok |-> FALSE, st |-> p, src |-> "prev"]
      [] IsSent(p) /\ c.k = "failed" -> [ok |-> TRUE, st |-> c, src |-> "cur"]
      [] p.k = "failed" /\ IsSent(c) -> [ok |-> TRUE, st |-> p, src |-> "prev"]
      [] IsSent(p) /\ IsSent(c)      -> [ok |-> TRUE, st |-> p, src |-> "prev"]
      [] IsSent(p) /\ c.k = "exec"   -> [ok |-> TRUE, st |-> c, src |-> "cur"]
      [] p.k = "exec" /\ IsSent(c)   -> [ok |-> TRUE, st |-> p, src |-> "prev"]
      [] p.k = "exec" /\ c.k = "exec" ->
            IF SameResult(p, c) THEN [ok |-> TRUE, st |-> p, src |-> "both"] ELSE [ok |-> FALSE, st |-> p, src |-> "prev"]
      [] OTHER -> [ok |-> FALSE, st |-> p, src |-> "prev"]

\* prepare_positions_mapping: result position -> position in prev / current trace (feeds the fold lore lookup)
MapPositions(ctx, scheme) ==
    LET np == Len(ctx.out) IN
    [ctx EXCEPT !.n2p = IF scheme \in {"prev", "both"} THEN WithName(@, np, ctx.ps.pos - 1) ELSE @,
                !.n2c = IF scheme \in {"cur", "both"} THEN WithName(@, np, ctx.cs.pos - 1) ELSE @]

\* try_merge_next_state_as_call: advances both sliders; [ctx, met, ok, st, src]; src: where the state came from
\* ("both" counts as previous data for generations)
TryMergeNextStateAsCall(ctx) ==
    LET pn == NextState(ctx.pt, ctx.ps)
        cn == NextState(ctx.ct, ctx.cs)
        c2 == [ctx EXCEPT !.ps = pn.sl, !.cs = cn.sl]
    IN  IF pn.has /\ cn.has THEN
            IF IsCallState(pn.st) /\ IsCallState(cn.st)
            THEN LET m == MergeCallResults(pn.st, cn.st) IN
                 [ctx |-> IF m.ok THEN MapPositions(c2, m.src) ELSE c2, met |-> TRUE, ok |-> m.ok, st |-> m.st, src |-> m.src]
            ELSE [ctx |-> c2, met |-> TRUE, ok |-> FALSE, st |-> pn.st, src |-> "prev"]
        ELSE IF cn.has THEN
            [ctx |-> MapPositions(c2, "cur"), met |-> TRUE, ok |-> IsCallState(cn.st), st |-> cn.st, src |-> "cur"]
        ELSE IF pn.has THEN
            [ctx |-> MapPositions(c2, "prev"), met |-> TRUE, ok |-> IsCallState(pn.st), st |-> pn.st, src |-> "prev"]
        ELSE [ctx |-> c2, met |-> FALSE, ok |-> TRUE, st |-> [k |-> "none"], src |-> "prev"]

\* try_merge_next_state_as_ap: [ctx, met, ok, gen]
TryMergeNextStateAsAp(ctx) ==
    LET pn == NextState(ctx.pt, ctx.ps)
        cn == NextState(ctx.ct, ctx.cs)
        c2 == [ctx EXCEPT !.ps = pn.sl, !.cs = cn.sl]
        okAp(s) == s.k = "ap"
        one(s) == Len(s.gs) = 1
    IN  IF pn.has /\ cn.has THEN
            IF okAp(pn.st) /\ okAp(cn.st) /\ one(pn.st)
            THEN [ctx |-> MapPositions(c2, "both"), met |-> TRUE, ok |-> TRUE, gen |-> [k |-> "prev", i |-> pn.st.gs[1]]]
            ELSE [ctx |-> c2, met |-> TRUE, ok |-> FALSE, gen |-> [k |-> "new", i |-> 0]]
        ELSE IF pn.has THEN
            IF okAp(pn.st) /\ one(pn.st)
            THEN [ctx |-> MapPositions(c2, "prev"), met |-> TRUE, ok |-> TRUE, gen |-> [k |-> "prev", i |-> pn.st.gs[1]]]
            ELSE [ctx |-> c2, met |-> TRUE, ok |-> FALSE, gen |-> [k |-> "new", i |-> 0]]
        ELSE IF cn.has THEN
            IF okAp(cn.st) /\ one(cn.st)
            THEN [ctx |-> MapPositions(c2, "cur"), met |-> TRUE, ok |-> TRUE, gen |-> [k |-> "cur", i |-> cn.st.gs[1]]]
            ELSE [ctx |-> c2, met |-> TRUE, ok |-> FALSE, gen |-> [k |-> "new", i |-> 0]]
        ELSE [ctx |-> c2, met |-> FALSE, ok |-> TRUE, gen |-> [k |-> "new", i |-> 0]]

\* try_merge_next_state_as_canon (canon_merger.rs): [ctx, met, ok, st]
IsCanonState(s) == s.k \in {"csent", "cexec"}
TryMergeNextStateAsCanon(ctx) ==
    LET pn == NextState(ctx.pt, ctx.ps)
        cn == NextState(ctx.ct, ctx.cs)
        c2 == [ctx EXCEPT !.ps = pn.sl, !.cs = cn.sl]
    IN  IF pn.has /\ cn.has THEN
            IF ~IsCanonState(pn.st) \/ ~IsCanonState(cn.st) THEN [ctx |-> c2, met |-> TRUE, ok |-> FALSE, st |-> pn.st]
            ELSE IF pn.st.k = "cexec" /\ cn.st.k = "cexec" /\ pn.st.c # cn.st.c THEN [ctx |-> c2, met |-> TRUE, ok |-> FALSE, st |-> pn.st]
            ELSE IF pn.st.k = "csent" /\ cn.st.k = "cexec" THEN [ctx |-> c2, met |-> TRUE, ok |-> TRUE, st |-> cn.st]
            ELSE [ctx |-> c2, met |-> TRUE, ok |-> TRUE, st |-> pn.st]
        ELSE IF pn.has THEN [ctx |-> c2, met |-> TRUE, ok |-> IsCanonState(pn.st), st |-> pn.st]
        ELSE IF cn.has THEN [ctx |-> c2, met |-> TRUE, ok |-> IsCanonState(cn.st), st |-> cn.st]
        ELSE [ctx |-> c2, met |-> FALSE, ok |-> TRUE, st |-> [k |-> "none"]]

\* try_merge_next_state_as_fold: [ctx, ok, pf, cf] with the resolved lores
TryMergeNextStateAsFold(ctx) ==
    LET pn == NextState(ctx.pt, ctx.ps)
        cn == NextState(ctx.ct, ctx.cs)
        c2 == [ctx EXCEPT !.ps = pn.sl, !.cs = cn.sl]
        kindsOk == (~pn.has \/ pn.st.k = "fold") /\ (~cn.has \/ cn.st.k = "fold")
        pf == IF pn.has /\ pn.st.k = "fold" THEN ResolveFoldLore(pn.st, ctx.pt) ELSE NoFold
        cf == IF cn.has /\ cn.st.k = "fold" THEN ResolveFoldLore(cn.st, ctx.ct) ELSE NoFold
    IN [ctx |-> c2, ok |-> kindsOk /\ pf.ok /\ cf.ok, pf |-> pf, cf |-> cf]

\* ---------------------------------------------------------------------------
\* scalars (values_sparse_matrix.rs).  sc: name -> sequence of cells [depth, set, val];
\* val = [v (value), tp (tetraplet [p, s, f, lens])]
NoTp == [p |-> "", s |-> "", f |-> "", lens |-> ""]
\* a value: v (JSON), tp (tetraplet), elems (the elements of a canon stream, else <<>>), pos (trace position
\* of the state that holds it, for stream values), prov (provenance kind)
Val(v, tp) == [v |-> v, tp |-> tp, elems |-> <<>>, cn |-> FALSE, cm |-> FALSE, pos |-> -1, prov |-> "literal"]
ValAt(v, tp, pos, prov) == [v |-> v, tp |-> tp, elems |-> <<>>, cn |-> FALSE, cm |-> FALSE, pos |-> pos, prov |-> prov]
CanonVal(peer, elems) ==
    [v |-> Arr([i \in 1..Len(elems) |-> elems[i].v]), tp |-> [p |-> peer, s |-> "", f |-> "", lens |-> ""],
     elems |-> elems, cn |-> TRUE, cm |-> FALSE, pos |-> -1, prov |-> "canon"]
\* stream maps hold {key, value} objects; keys are compared as text (42 and "42" are the same key).  TLC cannot order
\* strings, so the key universe of the generated scripts is listed in its (byte-wise) order.
KeyOrder == <<"0", "1", "2", "3", "k1", "k2", "k3">>
KeyKnown(s) == \E n \in 1..Len(KeyOrder) : KeyOrder[n] = s
KeyOfElem(e) == e.v.q[1].q[1].s
ValueOfElem(e) == e.v.q[2].q[1]
KeysOf(elems) == SelectSeq(KeyOrder, LAMBDA k : \E j \in 1..Len(elems) : KeyOfElem(elems[j]) = k)
ElemsWithKey(elems, k) == SelectSeq(elems, LAMBDA e : KeyOfElem(e) = k)
\* CanonStreamMap::as_jvalue: key -> array of all values under the key, keys sorted
MapObjV(elems) ==
    LET ks == KeysOf(elems) IN
    Obj([n \in 1..Len(ks) |-> KV(ks[n], Arr(LET es == ElemsWithKey(elems, ks[n]) IN [j \in 1..Len(es) |-> ValueOfElem(es[j])]))])
\* StreamMap::iter_unique_key_object: key -> the first value under the key
UniqueObjV(elems) ==
    LET ks == KeysOf(elems) IN Obj([n \in 1..Len(ks) |-> KV(ks[n], ValueOfElem(ElemsWithKey(elems, ks[n])[1]))])
CanonMapVal(peer, elems) == [CanonVal(peer, elems) EXCEPT !.v = MapObjV(elems), !.cm = TRUE]
NoVal == Val(Null, NoTp)
Cell(d, set, val) == [depth |-> d, set |-> set, val |-> val]
HasName(ctx, n) == n \in DOMAIN ctx.sc
LastCell(ctx, n) == ctx.sc[n][Len(ctx.sc[n])]

VariableCouldBeSet(ctx, n) ==
    IF ctx.depth # 0 THEN TRUE
    ELSE IF HasName(ctx, n) THEN ~LastCell(ctx, n).set ELSE FALSE

\* get_value on the matrix: "notfound" | "uninit" | "ok"
MatrixGet(ctx, n) ==
    IF ~HasName(ctx, n) THEN [r |-> "notfound", val |-> NoVal]
    ELSE LET c == LastCell(ctx, n) IN
         IF c.depth \notin ctx.allowed THEN [r |-> "notfound", val |-> NoVal]
         ELSE IF ~c.set THEN [r |-> "uninit", val |-> NoVal]
         ELSE [r |-> "ok", val |-> c.val]


\* set_value: ctx with err on ShadowingIsNotAllowed
SetValue(ctx, n, val) ==
    IF ~HasName(ctx, n) THEN [ctx EXCEPT !.sc = WithName(@, n, <<Cell(ctx.depth, TRUE, val)>>)]
    ELSE IF ~VariableCouldBeSet(ctx, n) THEN [ctx EXCEPT !.err = Uncatch(U_Shadowing)]
    ELSE LET cells == ctx.sc[n]  last == cells[Len(cells)] IN
         IF last.depth = ctx.depth
         THEN [ctx EXCEPT !.sc = WithName(@, n, [cells EXCEPT ![Len(cells)] = Cell(ctx.depth, TRUE, val)])]
         ELSE [ctx EXCEPT !.sc = WithName(@, n, Append(cells, Cell(ctx.depth, TRUE, val)))]

\* cleanup_obsolete_values: pops at most one cell per name
Cleanup(ctx) ==
    LET obsolete(n) == LET c == LastCell(ctx, n) IN c.depth # 0 /\ c.depth > ctx.depth
        gone == {n \in DOMAIN ctx.sc : obsolete(n) /\ Len(ctx.sc[n]) = 1}
    IN [ctx EXCEPT !.sc = [n \in (DOMAIN ctx.sc) \ gone |->
                              IF obsolete(n) THEN SubSeq(ctx.sc[n], 1, Len(ctx.sc[n]) - 1) ELSE ctx.sc[n]]]

MeetFoldStart(ctx) == [ctx EXCEPT !.depth = @ + 1, !.allowed = @ \cup {ctx.depth + 1}]
MeetNextBefore(ctx) == [ctx EXCEPT !.depth = @ + 1, !.allowed = (@ \ {ctx.depth}) \cup {ctx.depth + 1}]
MeetNextAfter(ctx) == Cleanup([ctx EXCEPT !.depth = @ - 1, !.allowed = (@ \ {ctx.depth}) \cup {ctx.depth - 1}])
MeetFoldEnd(ctx) == Cleanup([ctx EXCEPT !.depth = @ - 1, !.allowed = @ \ {ctx.depth}])

MeetNewStart(ctx, n) ==
    IF HasName(ctx, n) THEN [ctx EXCEPT !.sc = WithName(@, n, Append(ctx.sc[n], Cell(ctx.depth, FALSE, NoVal)))]
    ELSE [ctx EXCEPT !.sc = WithName(@, n, <<Cell(ctx.depth, FALSE, NoVal)>>)]

MeetNewEnd(ctx, n) ==
    IF ~HasName(ctx, n) THEN [ctx EXCEPT !.err = Uncatch(U_ScalarsCorrupted)]
    ELSE LET cells == ctx.sc[n] IN
         IF Len(cells) >= 2 THEN
             IF cells[Len(cells)].depth = ctx.depth
             THEN [ctx EXCEPT !.sc = WithName(@, n, SubSeq(cells, 1, Len(cells) - 1))]
             ELSE [ctx EXCEPT !.sc = WithName(@, n, SubSeq(cells, 1, Len(cells) - 1)), !.err = Uncatch(U_ScalarsCorrupted)]
         ELSE IF cells[1].depth = ctx.depth THEN [ctx EXCEPT !.sc = WithoutName(@, n)]
         ELSE [ctx EXCEPT !.err = Uncatch(U_ScalarsCorrupted)]


\* ---------------------------------------------------------------------------
\* streams (value_types/stream/*.rs, execution_context/streams_variables.rs)
\* A stream: three generation matrices prev / cur / new, each a sequence of generations (sequences of values).
\* sm: name -> stack of descriptors [scope, st]; scope = [op |-> "global"] or the `new` node that opened it.
EmptyStream == [prev |-> <<>>, cur |-> <<>>, new |-> <<>>]
GlobalScope == [op |-> "global"]
STREAM_MAX_SIZE == 1024

MatSize(m) == LET RECURSIVE S(_) S(i) == IF i > Len(m) THEN 0 ELSE Len(m[i]) + S(i + 1) IN S(1)
StreamSize(st) == MatSize(st.prev) + MatSize(st.cur) + MatSize(st.new)
Flatten(m) == LET RECURSIVE F(_) F(i) == IF i > Len(m) THEN <<>> ELSE m[i] \o F(i + 1) IN F(1)
\* Stream::iter: previous, current, new
StreamIter(st) == Flatten(st.prev) \o Flatten(st.cur) \o Flatten(st.new)
NonEmptyGens(m) == SelectSeq(m, LAMBDA g : Len(g) > 0)
\* StreamCursor: the number of values already seen in every generation of every matrix (a value restored from data is
\* put into the generation recorded in the data, which may be any generation, not only the last ones);
\* ValuesMatrix::unseen_slice_iter: per generation the values past the seen ones, empty slices dropped
GenLens(m) == [i \in 1..Len(m) |-> Len(m[i])]
UnseenFrom(m, seen) ==
    NonEmptyGens([i \in 1..Len(m) |->
        LET s0 == IF i <= Len(seen) THEN seen[i] ELSE 0
            s == IF s0 > Len(m[i]) THEN Len(m[i]) ELSE s0
        IN SubSeq(m[i], s + 1, Len(m[i]))])
StreamSlices(st, cur) == UnseenFrom(st.prev, cur.p) \o UnseenFrom(st.cur, cur.c) \o UnseenFrom(st.new, cur.n)
StreamCursor(st) == [p |-> GenLens(st.prev), c |-> GenLens(st.cur), n |-> GenLens(st.new)]

\* add_value_to_generation(value, idx) with 0-based idx (resize with empty generations)
AddToGen(m, val, idx) ==
    LET m2 == IF idx >= Len(m) THEN m \o [i \in 1..(idx + 1 - Len(m)) |-> <<>>] ELSE m IN
    [m2 EXCEPT ![idx + 1] = Append(@, val)]
\* add_to_last_generation: generation Len-1 (generation 0 when there is none)
AddToLastNew(m, val) == AddToGen(m, val, IF Len(m) = 0 THEN 0 ELSE Len(m) - 1)

\* gen: [k |-> "prev" | "cur" | "new", i]
StreamAdd(st, val, gen) ==
    CASE gen.k = "prev" -> [st EXCEPT !.prev = AddToGen(@, val, gen.i)]
      [] gen.k = "cur"  -> [st EXCEPT !.cur = AddToGen(@, val, gen.i)]
      [] OTHER          -> [st EXCEPT !.new = AddToLastNew(@, val)]

\* find_closest: the last descriptor whose span contains the position of the use (lexical: the `new` node is in lex)
Visible(ctx, d) == d.scope = GlobalScope \/ d.scope \in ctx.lex
FindDesc(ctx, name) ==
    IF name \notin DOMAIN ctx.sm THEN 0
    ELSE LET ds == ctx.sm[name]
             hits == {i \in 1..Len(ds) : Visible(ctx, ds[i])}
         IN IF hits = {} THEN 0 ELSE CHOOSE i \in hits : \A j \in hits : j <= i
GetStream(ctx, name) ==
    LET i == FindDesc(ctx, name) IN IF i = 0 THEN [found |-> FALSE, st |-> EmptyStream] ELSE [found |-> TRUE, st |-> ctx.sm[name][i].st]
SetStream(ctx, name, st) ==
    LET i == FindDesc(ctx, name) IN [ctx EXCEPT !.sm[name][i].st = st]

\* Streams::add_stream_value (+ the generation bound and the size limit of Stream::add_value)
AddStreamValue(ctx, name, val, gen) ==
    IF gen.k # "new" /\ gen.i >= STREAM_MAX_SIZE THEN [ctx EXCEPT !.err = Uncatch(20013)]
    ELSE
    LET i == FindDesc(ctx, name)
        st0 == IF i = 0 THEN EmptyStream ELSE ctx.sm[name][i].st
        st1 == StreamAdd(st0, val, gen)
        \* no descriptor fits the position: a global stream is created below the restricted ones that enclosing `new`s
        \* have opened (the value comes from outside their spans, e.g. from a fold body re-entered through `next`)
        older == IF name \in DOMAIN ctx.sm THEN ctx.sm[name] ELSE <<>>
        c1 == IF i = 0 THEN [ctx EXCEPT !.sm = WithName(@, name, <<[scope |-> GlobalScope, st |-> st1]>> \o older)]
              ELSE [ctx EXCEPT !.sm[name][i].st = st1]
    IN IF StreamSize(st1) >= STREAM_MAX_SIZE THEN [c1 EXCEPT !.err = Uncatch(20013)] ELSE c1

\* compactify: drop empty generations, number previous, then current, then new, write the numbers into the result trace
SetGeneration(out, pos, g) ==
    IF pos < 0 \/ pos >= Len(out) THEN [ok |-> FALSE, out |-> out]
    ELSE LET s == out[pos + 1] IN
         IF s.k = "ap" THEN [ok |-> TRUE, out |-> [out EXCEPT ![pos + 1] = [k |-> "ap", gs |-> <<g>>]]]
         ELSE IF s.k = "exec" /\ s.vt = "stream" THEN [ok |-> TRUE, out |-> [out EXCEPT ![pos + 1] = [s EXCEPT !.g = g]]]
         ELSE [ok |-> FALSE, out |-> out]
RECURSIVE NumberValues(_, _, _, _)
NumberValues(r, vals, j, g) ==
    IF j > Len(vals) \/ ~r.ok THEN r ELSE NumberValues(SetGeneration(r.out, vals[j].pos, g), vals, j + 1, g)
RECURSIVE NumberGens(_, _, _, _)
NumberGens(r, gens, i, start) ==
    IF i > Len(gens) \/ ~r.ok THEN r ELSE NumberGens(NumberValues(r, gens[i], 1, start + i - 1), gens, i + 1, start)
CompactStream(ctx, st) ==
    LET pv == NonEmptyGens(st.prev)  cu == NonEmptyGens(st.cur)  nw == NonEmptyGens(st.new)
        r1 == NumberGens([ok |-> TRUE, out |-> ctx.out], pv, 1, 0)
        r2 == NumberGens(r1, cu, 1, Len(pv))
        r3 == NumberGens(r2, nw, 1, Len(pv) + Len(cu))
    IN IF r3.ok THEN [ctx EXCEPT !.out = r3.out] ELSE [ctx EXCEPT !.err = Uncatch(20001)]
\* Streams::compactify at farewell: every descriptor of every stream
RECURSIVE CompactAll(_, _)
CompactAll(ctx, todo) ==
    IF todo = {} \/ Failed(ctx) THEN ctx
    ELSE LET x == CHOOSE y \in todo : TRUE IN CompactAll(CompactStream(ctx, ctx.sm[x[1]][x[2]].st), todo \ {x})
AllDescriptors(ctx) == UNION {{<<n, i>> : i \in 1..Len(ctx.sm[n])} : n \in DOMAIN ctx.sm}

\* ---------------------------------------------------------------------------
\* resolution of operands (resolver/resolvable_impl.rs, lambda_applier).
\* Result: [r, val] with r in "ok" | "join" (VariableNotFound: joinable) | "err" (code)
LitTetraplet(ctx) == [p |-> ctx.init, s |-> "", f |-> "", lens |-> ""]
Const(ctx, v) == [r |-> "ok", code |-> 0, val |-> Val(v, LitTetraplet(ctx))]
RJoin == [r |-> "join", code |-> E_VariableNotFound, val |-> NoVal]
RErr(code) == [r |-> "err", code |-> code, val |-> NoVal]

\* scalars::get_value: iterators shadow nothing (names are disjoint after parsing)
IterCur(ctx, n) == ctx.it[n].vals[ctx.it[n].idx]
GetValue(ctx, n) ==
    IF n \in DOMAIN ctx.it THEN
        (IF MatrixGet(ctx, n).r = "notfound" THEN [r |-> "ok", code |-> 0, val |-> IterCur(ctx, n)]
         ELSE RErr(U_IterableShadowing))   \* a scalar and an iterator with one name: uncatchable (was unreachable!(), C01)
    ELSE LET m == MatrixGet(ctx, n) IN
         IF m.r = "ok" THEN [r |-> "ok", code |-> 0, val |-> m.val]
         ELSE IF m.r = "uninit" THEN RErr(E_NotInitAfterNew)
         ELSE RJoin

LensStepText(st) ==
    IF st.lk = "field" THEN st.name
    ELSE IF st.lk = "idx" THEN "[" \o ToString(st.ix) \o "]"
    ELSE IF st.lk = "var" THEN "[" \o st.x \o "]"
    ELSE "?"
RECURSIVE LensJoin(_, _)
LensJoin(lens, i) ==
    IF i > Len(lens) THEN ""
    ELSE LensStepText(lens[i]) \o (IF i < Len(lens) THEN "." ELSE "") \o LensJoin(lens, i + 1)
LensText(lens) == IF Len(lens) = 1 /\ lens[1].lk = "len" THEN ".length" ELSE ".$." \o LensJoin(lens, 1)

PlainLens(lens) == \A i \in 1..Len(lens) : lens[i].lk \in {"field", "idx"}

DigitOf(s) == CASE s = "0" -> 0 [] s = "1" -> 1 [] s = "2" -> 2 [] s = "3" -> 3 [] s = "4" -> 4 [] s = "5" -> 5
                 [] s = "6" -> 6 [] s = "7" -> 7 [] s = "8" -> 8 [] s = "9" -> 9 [] OTHER -> -1
RECURSIVE SubstSteps(_, _, _, _)
SubstSteps(ctx, lens, i, acc) ==
    IF i > Len(lens) THEN [r |-> "ok", code |-> 0, steps |-> acc]
    ELSE IF lens[i].lk # "var" THEN SubstSteps(ctx, lens, i + 1, Append(acc, lens[i]))
    ELSE LET g == GetValue(ctx, lens[i].x) IN
         IF g.r = "join" THEN [r |-> "join", code |-> 0, steps |-> acc]
         ELSE IF g.r # "ok" THEN [r |-> "err", code |-> g.code, steps |-> acc]
         ELSE IF IsStr(g.val.v) THEN SubstSteps(ctx, lens, i + 1, Append(acc, [lk |-> "field", name |-> g.val.v.s]))
         ELSE IF IsNum(g.val.v) /\ DigitOf(g.val.v.s) >= 0 THEN SubstSteps(ctx, lens, i + 1, Append(acc, [lk |-> "idx", ix |-> DigitOf(g.val.v.s)]))
         ELSE IF IsNum(g.val.v) THEN [r |-> "err", code |-> -2, steps |-> acc]
         ELSE [r |-> "err", code |-> E_Lambda, steps |-> acc]

\* apply_lambda_with_tetraplets on a scalar
ApplyLens(ctx, val, lens) ==
    IF val.cm THEN
        \* a canon map (select_by_path_from_canon_map), `#%c.$.key` only: the array of the values under the key (empty when
        \* the key is absent), the map's tetraplet with the whole path as lens
        (IF Len(lens) # 1 \/ lens[1].lk \notin {"field", "idx"} THEN RErr(-2)
         ELSE LET k == IF lens[1].lk = "field" THEN lens[1].name ELSE ToString(lens[1].ix)
                  es == ElemsWithKey(val.elems, k) IN
              [r |-> "ok", code |-> 0,
               val |-> [Val(Arr([j \in 1..Len(es) |-> ValueOfElem(es[j])]), [val.tp EXCEPT !.lens = LensText(lens)]) EXCEPT !.prov = val.prov]])
    ELSE IF val.cn THEN
        \* a canon stream (jvaluable/canon_stream.rs, select_by_path_from_stream): the first accessor picks the element, the
        \* rest navigates inside it; the result keeps the element's own tetraplet (no lens suffix) and provenance
        (IF lens[1].lk # "idx" \/ ~PlainLens(lens) THEN RErr(-2)
         ELSE IF lens[1].ix >= Len(val.elems) THEN RErr(E_Lambda)
         ELSE LET el == val.elems[lens[1].ix + 1]
                  nv == Nav(el.v, SubSeq(lens, 2, Len(lens))) IN
              IF nv.ok THEN [r |-> "ok", code |-> 0, val |-> [Val(nv.v, el.tp) EXCEPT !.prov = el.prov]]
              ELSE RErr(E_Lambda))
    ELSE IF Len(lens) = 1 /\ lens[1].lk = "len" THEN
        (IF IsArr(val.v) THEN [r |-> "ok", code |-> 0,
                               val |-> [Val(Num(Len(val.v.q)), [p |-> "", s |-> "", f |-> "", lens |-> ".length"]) EXCEPT !.prov = val.prov]]
         ELSE RErr(E_LengthOfNonArray))
    ELSE
    \* accessors taken from scalars (lambda_applier: FieldAccessByScalar): the scalar must be known (else the operand
    \* waits) and hold a string (a field name) or a non-negative integer (an index); the tetraplet keeps the accessor
    \* as written, with the scalar's name
    LET sub == SubstSteps(ctx, lens, 1, <<>>) IN
    IF sub.r = "join" THEN RJoin
    ELSE IF sub.r = "err" THEN RErr(sub.code)
    ELSE LET nv == Nav(val.v, sub.steps) IN
         IF nv.ok THEN [r |-> "ok", code |-> 0, val |-> [Val(nv.v, [val.tp EXCEPT !.lens = @ \o LensText(lens)]) EXCEPT !.prov = val.prov]]
         ELSE RErr(E_Lambda)

Resolve(ctx, o) ==
    CASE o.o = "lit"   -> Const(ctx, o.v)
      [] o.o = "peer"  -> Const(ctx, Str(o.n))
      [] o.o = "init"  -> Const(ctx, Str(ctx.init))
      [] o.o = "empty" -> Const(ctx, Arr(<<>>))
      \* run parameters of the harness (net.rs): timestamp 1 700 000 000, ttl 5000
      [] o.o = "ts"    -> Const(ctx, Num(1700000000))
      [] o.o = "ttl"   -> Const(ctx, Num(5000))
      [] o.o = "var"   ->
            LET g == GetValue(ctx, o.n) IN
            IF g.r # "ok" THEN g
            ELSE IF Len(o.lens) = 0 THEN g
            ELSE ApplyLens(ctx, g.val, o.lens)
      \* %last_error% / :error: (resolvable_impl.rs resolve_errors): the lens is applied to the error object, the
      \* tetraplet is the one recorded with the error (none: the literal tetraplet) and gets no lens suffix.
      \* Only `.$.error_code` is modelled.
      [] o.o = "lasterr" -> [r |-> "ok", code |-> 0, val |-> Val(ctx.le.codev, ctx.le.tp)]
      [] o.o = "err"     -> [r |-> "ok", code |-> 0, val |-> Val(ctx.er.codev, ctx.er.tp)]
      [] OTHER -> RErr(-2)

Sigil(n) == SubSeq(n, 1, 1)
Prefix2(n) == IF Len(n) >= 2 THEN SubSeq(n, 1, 2) ELSE n
Supported(o) ==
    \/ o.o \in {"lit", "peer", "init", "empty", "ts", "ttl"}
    \/ (o.o = "var" /\ Sigil(o.n) \notin {"#", "$", "%"} /\ \A i \in 1..Len(o.lens) : o.lens[i].lk \in {"field", "idx", "len", "var"})
    \/ (o.o = "var" /\ Prefix2(o.n) = "#%" /\ (Len(o.lens) = 0 \/ (Len(o.lens) = 1 /\ o.lens[1].lk \in {"field", "idx"})))
    \/ (o.o = "var" /\ Sigil(o.n) = "#" /\ Prefix2(o.n) # "#%"
            /\ (Len(o.lens) = 0 \/ (o.lens[1].lk = "idx" /\ \A i \in 1..Len(o.lens) : o.lens[i].lk \in {"field", "idx"})))
    \/ (o.o \in {"lasterr", "err"} /\ Len(o.lens) = 1 /\ o.lens[1].lk = "field" /\ o.lens[1].name = "error_code")

\* resolve a sequence of operands left to right; first non-ok decides
RECURSIVE ResolveAll(_, _, _, _)
ResolveAll(ctx, os, i, acc) ==
    IF i > Len(os) THEN [r |-> "ok", code |-> 0, vals |-> acc]
    ELSE LET x == Resolve(ctx, os[i]) IN
         IF x.r = "ok" THEN ResolveAll(ctx, os, i + 1, Append(acc, x.val))
         ELSE [r |-> x.r, code |-> x.code, vals |-> acc]

\* ---------------------------------------------------------------------------
\* the context threaded through Exec
InitCtx(me, init, pt, ct, lcid, results) ==
    [ me |-> me, init |-> init, pt |-> pt, ct |-> ct, ps |-> Slider(pt), cs |-> Slider(ct),
      out |-> <<>>, sc |-> <<>>, depth |-> 0, allowed |-> {0}, it |-> <<>>,
      ok |-> TRUE, nx |-> {}, rq |-> <<>>, lcid |-> lcid, res |-> results,
      sm |-> <<>>, lex |-> {}, n2p |-> <<>>, n2c |-> <<>>, ff |-> <<>>, fid |-> 0,
      err |-> NoErr, unsup |-> FALSE, kf1 |-> FALSE,
      \* C13 on the design: stream folds that ended in this run without having visited every value of their stream
      c13 |-> <<>>,
      \* %last_error% and :error: descriptors: error code (as a value), tetraplet, "can be set" flag
      le |-> [codev |-> Num(0), tp |-> [p |-> init, s |-> "", f |-> "", lens |-> ""], set |-> TRUE],
      er |-> [codev |-> Num(0), tp |-> [p |-> init, s |-> "", f |-> "", lens |-> ""], set |-> TRUE, orig |-> NoErr] ]

Push(ctx, st) == [ctx EXCEPT !.out = Append(@, st)]
Incomplete(ctx) == [ctx EXCEPT !.ok = FALSE]
\* ExecutionCtx::set_errors, called by every instruction an error passes through on its way up: the first call after the
\* descriptors were (re)armed records the error, the later ones change nothing, so it is applied where the error is
\* raised (and harmlessly again where it is re-raised).  Match / mismatch failures do not touch %last_error%.
LitTp(ctx) == [p |-> ctx.init, s |-> "", f |-> "", lens |-> ""]
SetErrors(ctx, e, tp) ==
    IF e.cls # "catch" THEN ctx
    ELSE [ctx EXCEPT !.le = IF @.set /\ e.code \notin {E_Match, E_Mismatch} THEN [codev |-> Num(e.code), tp |-> tp, set |-> FALSE] ELSE @,
                     !.er = IF @.set THEN [codev |-> Num(e.code), tp |-> tp, set |-> FALSE, orig |-> NoErr] ELSE [@ EXCEPT !.set = FALSE]]
RaiseT(ctx, e, tp) == SetErrors([ctx EXCEPT !.err = e], e, tp)
Raise(ctx, e) == RaiseT(ctx, e, LitTp(ctx))

ResultFor(ctx, id) == {r \in ctx.res : r.id = id}

\* ---------------------------------------------------------------------------
\* call (instructions/call/*.rs)
Vals(q) == [i \in 1..Len(q) |-> q[i].v]
Tets(q) == [i \in 1..Len(q) |-> IF q[i].cn THEN [j \in 1..Len(q[i].elems) |-> q[i].elems[j].tp] ELSE <<q[i].tp>>]

\* populate_context_from_data: stored executed value must fit the instruction's output kind
BindStored(ctx, st, out, p, s, f, src) ==
    IF out = "" THEN (IF st.vt = "unused" THEN ctx ELSE Raise(ctx, Uncatch(U_ResultNotCorrespond)))
    ELSE IF Sigil(out) = "$" THEN
        (IF st.vt = "stream"
         THEN AddStreamValue(ctx, out, ValAt(st.v, [p |-> p, s |-> s, f |-> f, lens |-> ""], Len(ctx.out), "sr"),
                             [k |-> IF src = "cur" THEN "cur" ELSE "prev", i |-> st.g])
         ELSE Raise(ctx, Uncatch(U_ResultNotCorrespond)))
    ELSE IF st.vt = "scalar" THEN SetValue(ctx, out, ValAt(st.v, [p |-> p, s |-> s, f |-> f, lens |-> ""], -1, "sr"))
    ELSE Raise(ctx, Uncatch(U_ResultNotCorrespond))

\* verifier.rs verify_call: stored tetraplet and argument hash must match the instruction's
ParamsMatch(st, p, s, f, args) == st.p = p /\ st.s = s /\ st.f = f /\ st.lens = "" /\ st.ah = Arr(args)

\* update_state_with_service_result
ApplyServiceResult(ctx, r, out, p, s, f, args) ==
    IF r.rc # 0 THEN
        \* (a failed call leaves its subgraph incomplete, exactly as when the Failed state is met again in the data)
        RaiseT(Incomplete(Push(ctx, FailedState(FailedValue(r.rc, r.body), p, s, f, args))), Catch(E_LocalService), [p |-> p, s |-> s, f |-> f, lens |-> ""])
    ELSE IF r.v.t = "raw" THEN
        \* try_to_service_result: a body that is not JSON
        RaiseT(Incomplete(Push(ctx, FailedState(UndecodableValue(r.body), p, s, f, args))), Catch(E_LocalService), [p |-> p, s |-> s, f |-> f, lens |-> ""])
    ELSE IF out = "" THEN Push(ctx, UnusedState(r.v))
    ELSE IF Sigil(out) = "$" THEN
        LET c2 == AddStreamValue(ctx, out, ValAt(r.v, [p |-> p, s |-> s, f |-> f, lens |-> ""], Len(ctx.out), "sr"), [k |-> "new", i |-> 0]) IN
        IF Failed(c2) THEN c2 ELSE Push(c2, StreamExecState(r.v, p, s, f, args))
    ELSE LET c2 == SetValue(ctx, out, ValAt(r.v, [p |-> p, s |-> s, f |-> f, lens |-> ""], -1, "sr")) IN
         IF Failed(c2) THEN c2 ELSE Push(c2, ExecState("scalar", r.v, p, s, f, args))

ExecCall(i, ctx0) ==
    LET pr == Resolve(ctx0, i.peer)
        sr == Resolve(ctx0, i.srv)
        fr == Resolve(ctx0, i.fn)
    IN
    \* ResolvedCall::new: triplet, then the output name
    IF pr.r = "join" \/ (pr.r = "ok" /\ sr.r = "join") \/ (pr.r = "ok" /\ sr.r = "ok" /\ fr.r = "join") THEN Incomplete(ctx0)
    ELSE IF pr.r = "err" THEN Raise(ctx0, ErrOf(pr.code))
    ELSE IF ~IsStr(pr.val.v) THEN Raise(ctx0, Catch(E_NonStringTriplet))
    ELSE IF sr.r = "err" THEN Raise(ctx0, ErrOf(sr.code))
    ELSE IF ~IsStr(sr.val.v) THEN Raise(ctx0, Catch(E_NonStringTriplet))
    ELSE IF fr.r = "err" THEN Raise(ctx0, ErrOf(fr.code))
    ELSE IF ~IsStr(fr.val.v) THEN Raise(ctx0, Catch(E_NonStringTriplet))
    ELSE
    LET p == pr.val.v.s  s == sr.val.v.s  f == fr.val.v.s  out == i.out
        outChk == IF out = "" \/ Sigil(out) = "$" THEN "ok"
                  ELSE IF out \in DOMAIN ctx0.it THEN "iter"
                  ELSE IF MatrixGet(ctx0, out).r = "ok" /\ ~VariableCouldBeSet(ctx0, out) THEN "shadow"
                  ELSE "ok"
    IN
    IF outChk = "iter" THEN Raise(ctx0, Uncatch(U_IterableShadowing))
    ELSE IF outChk = "shadow" THEN Raise(ctx0, Uncatch(U_Shadowing))
    ELSE
    LET ar == ResolveAll(ctx0, i.args, 1, <<>>) IN
    IF ar.r = "err" THEN
        \* the arguments fail for good *before* the trace is touched.  If this call was marked as sent while
        \* its arguments were still unknown (a remote call is, see ExecuteNow), that state is left unconsumed
        \* and the next instruction will meet it (known finding "args-failed-after-sent", C04); kf1 records
        \* that the next state of either trace is a call state at this moment
        LET pn == NextState(ctx0.pt, ctx0.ps)  cn == NextState(ctx0.ct, ctx0.cs) IN
        RaiseT([ctx0 EXCEPT !.kf1 = @ \/ (pn.has /\ IsCallState(pn.st)) \/ (cn.has /\ IsCallState(cn.st))], ErrOf(ar.code),
               [p |-> p, s |-> s, f |-> f, lens |-> ""])
    ELSE
    LET argsKnown == ar.r = "ok"
        args == IF argsKnown THEN Vals(ar.vals) ELSE <<>>
        tets == IF argsKnown THEN Tets(ar.vals) ELSE <<>>
        m == TryMergeNextStateAsCall(ctx0)
        ctx == m.ctx
        local == p = ctx.me
        \* no state, or a request somebody else marked: execute now if it is mine
        ExecuteNow(c, prevState, hasPrev) ==
            IF ~local THEN
                \* handle_remote_call
                Incomplete(Push([c EXCEPT !.nx = @ \cup {p}], SentState(c.me, -1)))
            ELSE IF ~argsKnown THEN
                \* prepare_request_params hit a joinable error: keep the state, wait
                Incomplete(IF hasPrev THEN Push(c, prevState) ELSE c)
            ELSE LET id == c.lcid + 1 IN
                 Incomplete(Push([c EXCEPT !.lcid = id,
                                           !.rq = Append(@, [id |-> id, srv |-> s, fn |-> f, args |-> args, tets |-> tets])],
                                 SentState(c.me, id)))
    IN
    IF ~m.ok THEN Raise(ctx, Uncatch(U_Trace))
    ELSE IF ~m.met THEN ExecuteNow(ctx, [k |-> "none"], FALSE)
    ELSE
    LET st == m.st IN
    CASE st.k = "failed" ->
            IF ~argsKnown THEN Raise(ctx, Uncatch(-1))     \* argument_hash.unwrap() on None: panic (C01)
            ELSE IF ~ParamsMatch(st, p, s, f, args) THEN Raise(ctx, Uncatch(U_ParamsMismatch))
            ELSE RaiseT(Incomplete(Push(ctx, st)), Catch(E_LocalService), [p |-> p, s |-> s, f |-> f, lens |-> ""])
      [] st.k = "sent" /\ st.by = ctx.me /\ st.id >= 0 ->
            LET rs == ResultFor(ctx, st.id) IN
            IF rs = {} THEN Incomplete(Push(ctx, st))
            ELSE IF ~argsKnown THEN Raise(ctx, Uncatch(-1))  \* expect("Result for joinable error"): panic
            ELSE LET r == CHOOSE x \in rs : TRUE IN
                 ApplyServiceResult([ctx EXCEPT !.res = @ \ rs], r, out, p, s, f, args)
      [] st.k = "sent" ->
            IF local THEN ExecuteNow(ctx, st, TRUE) ELSE Incomplete(Push(ctx, st))
      [] st.k = "exec" ->
            IF ~argsKnown THEN Raise(ctx, Uncatch(-1))
            ELSE IF st.vt # "unused" /\ ~ParamsMatch(st, p, s, f, args) THEN
                (IF (out = "" /\ st.vt = "unused") \/ (out # "" /\ Sigil(out) = "$" /\ st.vt = "stream")
                    \/ (out # "" /\ Sigil(out) # "$" /\ st.vt = "scalar")
                 THEN Raise(ctx, Uncatch(U_ParamsMismatch))
                 ELSE Raise(ctx, Uncatch(U_ResultNotCorrespond)))
            ELSE LET c2 == BindStored(ctx, st, out, p, s, f, m.src) IN
                 IF Failed(c2) THEN c2 ELSE Push(c2, st)
      [] OTHER -> Raise(ctx, Uncatch(U_Trace))

\* ---------------------------------------------------------------------------
\* par (par.rs, par_fsm.rs, new_states_calculation.rs, par_builder.rs)
\* meet_par_start: [ctx, ok, fsm]
ParStart(ctx) ==
    LET pn == NextState(ctx.pt, ctx.ps)
        cn == NextState(ctx.ct, ctx.cs)
        okKinds == (~pn.has \/ pn.st.k = "par") /\ (~cn.has \/ cn.st.k = "par")
        pl == IF pn.has /\ pn.st.k = "par" THEN pn.st.lsz ELSE 0
        prr == IF pn.has /\ pn.st.k = "par" THEN pn.st.rsz ELSE 0
        cl == IF cn.has /\ cn.st.k = "par" THEN cn.st.lsz ELSE 0
        crr == IF cn.has /\ cn.st.k = "par" THEN cn.st.rsz ELSE 0
        \* compute_new_state for Right needs subtrace_len() - (l + r) >= 0
        under == Remaining(pn.sl) - (pl + prr) < 0 \/ Remaining(cn.sl) - (cl + crr) < 0
        fsm == [ pos |-> Len(ctx.out) + 1,            \* index of the placeholder in out
                 saved |-> Len(ctx.out) + 1,          \* result_states_count after the placeholder
                 pl |-> pl, pr |-> prr, cl |-> cl, cr |-> crr,
                 pAfterL |-> [pos |-> pn.sl.pos + pl, len |-> pl],
                 cAfterL |-> [pos |-> cn.sl.pos + cl, len |-> cl],
                 pAfterR |-> [pos |-> pn.sl.pos + pl + prr, len |-> Remaining(pn.sl) - (pl + prr)],
                 cAfterR |-> [pos |-> cn.sl.pos + cl + crr, len |-> Remaining(cn.sl) - (cl + crr)],
                 lsize |-> 0 ]
        c1 == Push([ctx EXCEPT !.ps = pn.sl, !.cs = cn.sl], ParState(0, 0))
        sp == SetSubtraceLen(ctx.pt, pn.sl, pl)
        scu == SetSubtraceLen(ctx.ct, cn.sl, cl)
    IN  IF ~okKinds \/ under \/ ~sp.ok \/ ~scu.ok THEN [ctx |-> c1, ok |-> FALSE, fsm |-> fsm]
        ELSE [ctx |-> [c1 EXCEPT !.ps = sp.sl, !.cs = scu.sl], ok |-> TRUE, fsm |-> fsm]

ParLeftCompleted(ctx, fsm) ==
    LET lsize == Len(ctx.out) - fsm.saved
        p1 == SetPositionAndLen(ctx.pt, ctx.ps, fsm.pAfterL.pos, fsm.pAfterL.len).sl
        c1 == SetPositionAndLen(ctx.ct, ctx.cs, fsm.cAfterL.pos, fsm.cAfterL.len).sl
        p2 == SetSubtraceLen(ctx.pt, p1, fsm.pr).sl
        c2 == SetSubtraceLen(ctx.ct, c1, fsm.cr).sl
    IN [ctx |-> [ctx EXCEPT !.ps = p2, !.cs = c2], fsm |-> [fsm EXCEPT !.lsize = lsize, !.saved = Len(ctx.out)]]

ParRightCompleted(ctx, fsm) ==
    LET rsize == Len(ctx.out) - fsm.saved
        p1 == SetPositionAndLen(ctx.pt, ctx.ps, fsm.pAfterR.pos, fsm.pAfterR.len).sl
        c1 == SetPositionAndLen(ctx.ct, ctx.cs, fsm.cAfterR.pos, fsm.cAfterR.len).sl
    IN [ctx EXCEPT !.out = [@ EXCEPT ![fsm.pos] = ParState(fsm.lsize, rsize)], !.ps = p1, !.cs = c1]

\* ---------------------------------------------------------------------------
RECURSIVE Exec(_, _)

ExecSeq(i, ctx) ==
    LET c1 == Exec(i.l, [ctx EXCEPT !.ok = TRUE]) IN
    IF Failed(c1) \/ ~c1.ok THEN c1 ELSE Exec(i.r, c1)

\* fail.rs.  With literals: %last_error% becomes the literal error object unconditionally, then UserError bubbles.
\* (fail %last_error%): the last error must be a real error object (code # 0), it stays the last error, UserError bubbles.
\* (fail :error:): likewise for :error:, which also becomes the last error; the error that bubbles is the one the
\* enclosing xor caught (if :error: still is that one), else UserError; :error: is frozen.
ExecFail(i, ctx) ==
    IF i.a.o = "lit" THEN
        Raise(Incomplete([ctx EXCEPT !.le = [codev |-> i.a.v, tp |-> LitTp(ctx), set |-> FALSE]]), Catch(E_UserError))
    ELSE IF i.a.o = "lasterr" THEN
        (IF ctx.le.codev = Num(0) THEN Raise(ctx, Catch(E_InvalidErrorObject))
         ELSE Raise(Incomplete([ctx EXCEPT !.le.set = FALSE]), Catch(E_UserError)))
    ELSE
        (IF ctx.er.codev = Num(0) THEN Raise(ctx, Catch(E_InvalidErrorObject))
         ELSE LET c1 == Incomplete([ctx EXCEPT !.le = [codev |-> ctx.er.codev, tp |-> ctx.er.tp, set |-> FALSE], !.er.set = FALSE]) IN
              [c1 EXCEPT !.err = IF ctx.er.orig.cls = "catch" THEN ctx.er.orig ELSE Catch(E_UserError)])

\* xor.rs: catching re-arms both descriptors; after the right branch :error: is cleared if it may be set, and is
\* re-armed if the right branch did not fail
ExecXor(i, ctx) ==
    LET c1 == Exec(i.l, [ctx EXCEPT !.ok = TRUE]) IN
    IF c1.err.cls = "catch" THEN
        LET r == Exec(i.r, [c1 EXCEPT !.ok = TRUE, !.err = NoErr, !.le.set = TRUE, !.er.set = TRUE, !.er.orig = c1.err])
            r2 == IF r.er.set THEN [r EXCEPT !.er = [codev |-> Num(0), tp |-> LitTp(r), set |-> TRUE, orig |-> NoErr]] ELSE r
        IN IF ~Failed(r2) THEN [r2 EXCEPT !.er.set = TRUE] ELSE r2
    ELSE c1

ExecPar(i, ctx) ==
    LET st == ParStart(ctx) IN
    IF ~st.ok THEN Raise(st.ctx, Uncatch(U_Trace))
    ELSE
    LET l0 == Exec(i.l, [st.ctx EXCEPT !.ok = (i.l.op # "next")]) IN
    IF l0.err.cls = "uncatch" THEN Incomplete(l0)
    ELSE
    LET lfailed == l0.err.cls = "catch"
        lerr == l0.err
        l1 == IF lfailed THEN [l0 EXCEPT !.ok = FALSE, !.err = NoErr] ELSE l0
        lc == ParLeftCompleted(l1, st.fsm)
        lok == l1.ok
        r0 == Exec(i.r, [lc.ctx EXCEPT !.ok = (i.r.op # "next")])
    IN
    IF r0.err.cls = "uncatch" THEN Incomplete(r0)
    ELSE
    LET rfailed == r0.err.cls = "catch"
        rerr == r0.err
        r1 == IF rfailed THEN [r0 EXCEPT !.ok = FALSE, !.err = NoErr] ELSE r0
        rok == r1.ok
        done == ParRightCompleted(r1, lc.fsm)
        fin == [done EXCEPT !.ok = lok \/ rok]
    \* prepare_par_result: a par with a side that did not fail re-arms %last_error%
    IN IF lfailed /\ rfailed THEN Raise(fin, rerr) ELSE [fin EXCEPT !.le.set = TRUE]

ExecMatch(i, ctx, wantEqual) ==
    LET a == Resolve(ctx, i.a)  b == Resolve(ctx, i.b) IN
    IF a.r = "join" \/ (a.r = "ok" /\ b.r = "join") THEN Incomplete(ctx)
    ELSE IF a.r = "err" THEN Raise(ctx, ErrOf(a.code))
    ELSE IF b.r = "err" THEN Raise(ctx, ErrOf(b.code))
    ELSE IF (a.val.v = b.val.v) = wantEqual THEN Exec(i.i, ctx)
    ELSE Raise(ctx, Catch(IF wantEqual THEN E_Match ELSE E_Mismatch))

ExecAp(i, ctx) ==
    LET a == Resolve(ctx, i.src) IN
    IF a.r = "join" THEN Incomplete(ctx)
    ELSE IF a.r = "err" THEN Raise(ctx, ErrOf(a.code))
    ELSE IF Sigil(i.dst) # "$" THEN SetValue(ctx, i.dst, a.val)
    ELSE
    \* the value takes the position of the Ap state about to be written
    LET val == [a.val EXCEPT !.pos = Len(ctx.out)]
        m == TryMergeNextStateAsAp(ctx) IN
    IF ~m.ok THEN Raise(m.ctx, Uncatch(U_Trace))
    ELSE LET c2 == AddStreamValue(m.ctx, i.dst, val, m.gen) IN
         IF Failed(c2) THEN c2 ELSE Push(c2, ApState)

\* ap into a stream map (instructions/ap_map.rs): the value is resolved first (issue 216), then the Ap state is merged,
\* then the key; the map holds {key, value} objects in an ordinary stream of its own namespace
ExecApMap(i, ctx) ==
    LET a == Resolve(ctx, i.src) IN
    IF a.r = "join" THEN Incomplete(ctx)
    ELSE IF a.r = "err" THEN Raise(ctx, ErrOf(a.code))
    ELSE
    LET val == [a.val EXCEPT !.pos = Len(ctx.out), !.v = Obj(<<KV("key", i.key.v), KV("value", a.val.v)>>)]
        m == TryMergeNextStateAsAp(ctx) IN
    IF ~m.ok THEN Raise(m.ctx, Uncatch(U_Trace))
    ELSE LET c2 == AddStreamValue(m.ctx, i.dst, val, m.gen) IN
         IF Failed(c2) THEN c2 ELSE Push(c2, ApState)

\* canon (instructions/canon.rs, canon_utils/mod.rs)
\* the three epilogs: canon stream, canon map (canon_map.rs), stream map rendered into a scalar
\* (canon_stream_map_scalar.rs: the canon state carries one value, the object of the unique keys)
CanonBind(i, ctx, peer, elems) ==
    IF Sigil(i.s) = "$" THEN SetValue(ctx, i.c, CanonVal(peer, elems))
    ELSE IF Sigil(i.c) = "#" THEN SetValue(ctx, i.c, CanonMapVal(peer, elems))
    ELSE IF Len(elems) = 0 THEN Raise(ctx, Uncatch(20016))
    ELSE SetValue(ctx, i.c, ValAt(elems[1].v, [p |-> peer, s |-> "", f |-> "", lens |-> ""], Len(ctx.out), "canon"))
CanonCreate(i, ctx, peer) ==
    LET g == GetStream(ctx, i.s)
        all == IF g.found THEN StreamIter(g.st) ELSE <<>>
        vals == IF Sigil(i.s) = "%" /\ Sigil(i.c) # "#"
                THEN <<ValAt(UniqueObjV(all), [p |-> peer, s |-> "", f |-> "", lens |-> ""], 0, "literal")>>
                ELSE all
        st == CanonExecState(peer, vals)
        c2 == CanonBind(i, ctx, peer, vals)
    IN IF Failed(c2) THEN c2 ELSE Push(c2, st)
ElemVal(e) == [v |-> e.v, tp |-> [p |-> e.p, s |-> e.s, f |-> e.f, lens |-> e.lens], elems |-> <<>>, cn |-> FALSE, cm |-> FALSE, pos |-> -1, prov |-> e.prov]
ExecCanon(i, ctx0) ==
    LET m == TryMergeNextStateAsCanon(ctx0)
        ctx == m.ctx
        pr == Resolve(ctx, i.peer) IN
    IF ~m.ok THEN Raise(ctx, Uncatch(U_Trace))
    ELSE IF m.met THEN
        (IF pr.r = "join" THEN Raise(ctx, Catch(E_VariableNotFound))
         ELSE IF pr.r = "err" THEN Raise(ctx, ErrOf(pr.code))
         ELSE IF ~IsStr(pr.val.v) THEN Raise(ctx, Catch(E_NonStringTriplet))
         ELSE LET peer == pr.val.v.s IN
              IF m.st.k = "csent" THEN
                  (IF peer # ctx.me THEN Incomplete(Push(ctx, m.st)) ELSE CanonCreate(i, ctx, peer))
              ELSE IF m.st.p # peer \/ m.st.s # "" \/ m.st.f # "" \/ m.st.lens # "" THEN Raise(ctx, Uncatch(U_ParamsMismatch))
              ELSE LET elems == [j \in 1..Len(m.st.vals) |-> ElemVal(m.st.vals[j])]
                       c2 == CanonBind(i, ctx, m.st.p, elems) IN
                   IF Failed(c2) THEN c2 ELSE Push(c2, m.st))
    ELSE
        (IF pr.r = "join" THEN Incomplete(ctx)
         ELSE IF pr.r = "err" THEN Raise(ctx, ErrOf(pr.code))
         ELSE IF ~IsStr(pr.val.v) THEN Raise(ctx, Catch(E_NonStringTriplet))
         ELSE LET peer == pr.val.v.s IN
              IF peer # ctx.me THEN Incomplete(Push([ctx EXCEPT !.nx = @ \cup {peer}], CanonSentState(ctx.me)))
              ELSE CanonCreate(i, ctx, peer))

\* fold FSM of the trace handler (state_automata/fold_fsm*.rs)
NoLore == [has |-> FALSE, b |-> <<0, 0>>, a |-> <<0, 0>>]
TakeLore(lore, pos) == IF pos \in DOMAIN lore THEN [has |-> TRUE, b |-> lore[pos].b, a |-> lore[pos].a] ELSE NoLore
ApplyLore(tr, sl, l, which) ==
    IF l.has THEN (IF which = "b" THEN SetPositionAndLen(tr, sl, l.b[1], l.b[2]) ELSE SetPositionAndLen(tr, sl, l.a[1], l.a[2]))
    ELSE SetSubtraceLen(tr, sl, 0)
ApplyLores(ctx, pl, cl, which) ==
    LET p1 == ApplyLore(ctx.pt, ctx.ps, pl, which)
        c1 == ApplyLore(ctx.ct, ctx.cs, cl, which) IN
    IF p1.ok /\ c1.ok THEN [ctx EXCEPT !.ps = p1.sl, !.cs = c1.sl] ELSE Raise([ctx EXCEPT !.ps = p1.sl], Uncatch(U_Trace))
CtorNext(st) == IF st >= 3 THEN 3 ELSE st + 1
CtorFinish(c, n) ==
    CASE c.st = 0 -> [c EXCEPT !.be = n, !.as = n, !.ae = n, !.st = 3]
      [] c.st = 1 -> [c EXCEPT !.as = n, !.ae = n, !.st = 3]
      [] c.st = 2 -> [c EXCEPT !.ae = n, !.st = 3]
      [] OTHER -> c
CtorLore(c) == [vp |-> c.vp, d |-> <<<<c.bs, c.be - c.bs>>, <<c.as, c.ae - c.as>>>>]

FoldFsmStart(ctx0) ==
    LET m == TryMergeNextStateAsFold(ctx0)
        ctx == m.ctx
        plen == Remaining(ctx.ps) - m.pf.count
        clen == Remaining(ctx.cs) - m.cf.count
        fid == ctx.fid + 1
        fsm == [pl |-> m.pf.lore, cl |-> m.cf.lore, ins |-> Len(ctx.out) + 1, q |-> <<>>, bt |-> 0, started |-> FALSE, res |-> <<>>,
                pfin |-> [pos |-> ctx.ps.pos + m.pf.count, len |-> plen], cfin |-> [pos |-> ctx.cs.pos + m.cf.count, len |-> clen]]
    IN IF ~m.ok \/ plen < 0 \/ clen < 0 THEN Raise(ctx, Uncatch(U_Trace))
       ELSE Push([ctx EXCEPT !.fid = fid, !.ff = WithName(@, fid, fsm)], ParState(0, 0))

FsmIterationStart(ctx, fid, vp) ==
    LET fsm == ctx.ff[fid]
        pp == IF vp \in DOMAIN ctx.n2p THEN ctx.n2p[vp] ELSE -1
        cp == IF vp \in DOMAIN ctx.n2c THEN ctx.n2c[vp] ELSE -1
        pl == TakeLore(fsm.pl, pp)
        cl == TakeLore(fsm.cl, cp)
        c1 == ApplyLores(ctx, pl, cl, "b")
        ctor == [vp |-> vp, bs |-> Len(ctx.out), be |-> 0, as |-> 0, ae |-> 0, st |-> 0]
    IN IF Failed(c1) THEN c1
       ELSE [c1 EXCEPT !.ff[fid] = [fsm EXCEPT !.pl = [x \in (DOMAIN fsm.pl) \ {pp} |-> fsm.pl[x]],
                                               !.cl = [x \in (DOMAIN fsm.cl) \ {cp} |-> fsm.cl[x]],
                                               !.q = Append(@, [ctor |-> ctor, pl |-> pl, cl |-> cl]),
                                               !.bt = @ + 1]]

FsmIterationEnd(ctx, fid) ==
    LET fsm == ctx.ff[fid] IN
    [ctx EXCEPT !.ff[fid].q[fsm.bt].ctor = [@ EXCEPT !.be = Len(ctx.out), !.st = CtorNext(@)]]

FsmBackIterator(ctx, fid) ==
    LET fsm == ctx.ff[fid]  n == Len(ctx.out) IN
    IF ~fsm.started THEN
        LET cur == fsm.q[fsm.bt]
            c1 == IF cur.ctor.st = 0 THEN [cur.ctor EXCEPT !.be = n, !.st = 1] ELSE cur.ctor
            c2 == [c1 EXCEPT !.as = n, !.st = CtorNext(@)]
            x == ApplyLores(ctx, cur.pl, cur.cl, "a")
        IN IF Failed(x) THEN x ELSE [x EXCEPT !.ff[fid].q[fsm.bt].ctor = c2, !.ff[fid].started = TRUE]
    ELSE
        LET cur == fsm.q[fsm.bt]
            c1 == [cur.ctor EXCEPT !.ae = n, !.st = CtorNext(@)]
            bt2 == fsm.bt - 1 IN
        IF bt2 < 1 THEN Raise(ctx, Uncatch(-1))      \* queue[0 - 1]: index underflow panic in the code
        ELSE LET nx == fsm.q[bt2]
                 c2 == [nx.ctor EXCEPT !.as = n, !.st = CtorNext(@)]
                 x == ApplyLores(ctx, nx.pl, nx.cl, "a")
             IN IF Failed(x) THEN x
                ELSE [x EXCEPT !.ff[fid].q[fsm.bt].ctor = c1, !.ff[fid].q[bt2].ctor = c2, !.ff[fid].bt = bt2]

FsmGenerationEnd(ctx, fid) ==
    LET fsm == ctx.ff[fid]  n == Len(ctx.out)
        lores == [j \in 1..Len(fsm.q) |-> CtorLore(CtorFinish(fsm.q[j].ctor, n))] IN
    [ctx EXCEPT !.ff[fid] = [fsm EXCEPT !.q = <<>>, !.bt = 0, !.started = FALSE, !.res = @ \o lores]]

FsmFoldEnd(ctx, fid) ==
    LET fsm == ctx.ff[fid]
        p1 == SetPositionAndLen(ctx.pt, ctx.ps, fsm.pfin.pos, fsm.pfin.len).sl
        c1 == SetPositionAndLen(ctx.ct, ctx.cs, fsm.cfin.pos, fsm.cfin.len).sl IN
    [ctx EXCEPT !.out = [@ EXCEPT ![fsm.ins] = [k |-> "fold", lore |-> fsm.res]], !.ps = p1, !.cs = c1,
                !.ff = WithoutName(@, fid)]

ExecNew(i, ctx) ==
    IF Sigil(i.n) \in {"$", "%"} THEN
        \* Streams::meet_scope_start / meet_scope_end: a fresh stream for the span of this `new`, compacted at its end
        LET ds0 == IF i.n \in DOMAIN ctx.sm THEN ctx.sm[i.n] ELSE <<>>
            c0 == [ctx EXCEPT !.sm = WithName(@, i.n, Append(ds0, [scope |-> i, st |-> EmptyStream])), !.lex = @ \cup {i}]
            c1 == Exec(i.i, c0)
            c1l == [c1 EXCEPT !.lex = ctx.lex]
        IN  IF i.n \notin DOMAIN c1l.sm \/ Len(c1l.sm[i.n]) = 0 THEN Raise(c1l, Uncatch(-1))    \* unwrap() on a missing stream: panic
            ELSE
            LET ds == c1l.sm[i.n]
                last == ds[Len(ds)]
                c2 == [c1l EXCEPT !.sm = IF Len(ds) = 1 THEN WithoutName(@, i.n) ELSE WithName(@, i.n, SubSeq(ds, 1, Len(ds) - 1))]
                c3 == CompactStream([c2 EXCEPT !.err = NoErr], last.st)
            IN IF Failed(c1) THEN [c3 EXCEPT !.err = c1.err] ELSE c3
    ELSE
    LET c1 == Exec(i.i, MeetNewStart(ctx, i.n))
        c2 == MeetNewEnd([c1 EXCEPT !.err = NoErr], i.n)
    IN IF Failed(c1) THEN [c2 EXCEPT !.err = c1.err] ELSE c2

\* iterator element i of a scalar iterable: the source's tetraplet with the index appended to the lens
IterVals(val) ==
    [j \in 1..Len(val.v.q) |->
        [Val(val.v.q[j], [val.tp EXCEPT !.lens = @ \o ".$.[" \o ToString(j - 1) \o "]"]) EXCEPT !.prov = val.prov]]

IterState(vals, i, fid, lex) == [vals |-> vals, idx |-> 1, body |-> i.i, last |-> i.last, stream |-> fid, back |-> FALSE, lex |-> lex]

\* fold_scalar.rs fold(): one traversal of `vals` (a scalar array, a canon stream, or one generation of a stream)
FoldOver(i, ctx, vals, fid) ==
    IF i.x \in DOMAIN ctx.it THEN Raise(MeetFoldStart(ctx), Uncatch(U_MultipleIterable))
    ELSE
    LET c0 == MeetFoldStart(ctx)
        c1 == [c0 EXCEPT !.it = WithName(@, i.x, IterState(vals, i, fid, ctx.lex))]
        c2 == Exec(i.i, c1)
    IN MeetFoldEnd([c2 EXCEPT !.it = WithoutName(@, i.x), !.lex = ctx.lex])

\* execute_iterations: one fold() per generation; catchable errors are swallowed per generation
RECURSIVE ExecGenerations(_, _, _, _, _, _)
ExecGenerations(i, ctx, fid, gens, j, anyOk) ==
    IF j > Len(gens) \/ Failed(ctx) THEN [ctx |-> ctx, anyOk |-> anyOk]
    ELSE LET c1 == FsmIterationStart(ctx, fid, gens[j][1].pos) IN
         IF Failed(c1) THEN [ctx |-> c1, anyOk |-> anyOk]
         ELSE LET c2 == FoldOver(i, c1, gens[j], fid) IN
              IF c2.err.cls = "uncatch" THEN [ctx |-> c2, anyOk |-> anyOk]
              ELSE LET c3 == FsmGenerationEnd([c2 EXCEPT !.err = NoErr], fid) IN
                   ExecGenerations(i, c3, fid, gens, j + 1, anyOk \/ c3.ok)

\* the recursive stream cursor (recursive_stream.rs): batches of not yet seen generations until a batch adds nothing
AddEmptyNewGen(st) == [st EXCEPT !.new = Append(@, <<>>)]
RemoveLastNewIfEmpty(st) == IF Len(st.new) > 0 /\ Len(st.new[Len(st.new)]) = 0 THEN [st EXCEPT !.new = SubSeq(@, 1, Len(@) - 1)] ELSE st
RECURSIVE FoldBatches(_, _, _, _, _, _)
FoldBatches(i, ctx, fid, gens, cursor, anyOk) ==
    IF Len(gens) = 0 \/ Failed(ctx) THEN [ctx |-> ctx, anyOk |-> anyOk]
    ELSE LET r == ExecGenerations(i, ctx, fid, gens, 1, anyOk) IN
         IF Failed(r.ctx) THEN r
         ELSE LET g == GetStream(r.ctx, i.it.n) IN
              IF ~g.found THEN [ctx |-> Raise(r.ctx, Uncatch(-1)), anyOk |-> r.anyOk]     \* get_mut(..).unwrap(): panic
              ELSE LET nextGens == StreamSlices(g.st, cursor)
                       st2 == RemoveLastNewIfEmpty(g.st)
                       cursor2 == StreamCursor(st2)
                       c2 == SetStream(r.ctx, i.it.n, AddEmptyNewGen(st2))
                   IN FoldBatches(i, c2, fid, nextGens, cursor2, r.anyOk)

RECURSIVE AlwaysNext(_, _)
AlwaysNext(b, x) ==
    CASE b.op = "next" -> b.x = x
      [] b.op = "par" -> AlwaysNext(b.l, x) \/ AlwaysNext(b.r, x)
      [] b.op = "seq" -> AlwaysNext(b.l, x)
      [] OTHER -> FALSE
ExecFoldStream(i, ctx) ==
    LET g == GetStream(ctx, i.it.n) IN
    IF ~g.found THEN Incomplete(ctx)
    ELSE
    LET c0 == FoldFsmStart(ctx) IN
    IF Failed(c0) THEN c0
    ELSE
    LET fid == c0.fid
        gens == StreamSlices(g.st, [p |-> <<>>, c |-> <<>>, n |-> <<>>])
        cursor == StreamCursor(g.st)
        c1 == IF Len(gens) > 0 THEN SetStream(c0, i.it.n, AddEmptyNewGen(g.st)) ELSE c0
        r == FoldBatches(i, c1, fid, gens, cursor, FALSE)
    IN IF Failed(r.ctx) THEN r.ctx
       ELSE
       \* C13: a fold whose body reaches `next` whatever happens has, when it ends, one iteration for every value its
       \* stream holds at that moment (values merged from data, values appended before and during the fold), each once
       LET fin == [r.ctx EXCEPT !.ok = r.anyOk]
           g2 == GetStream(fin, i.it.n)
           vals == IF g2.found THEN StreamIter(g2.st) ELSE <<>>
           vp == {vals[k].pos : k \in 1..Len(vals)}
           lore == fin.ff[fid].res
           lp == {lore[k].vp : k \in 1..Len(lore)}
           ok == ~AlwaysNext(i.i, i.x) \/ (vp = lp /\ Len(lore) = Cardinality(lp))
           \* where the missed values sit: restored from this peer's previous data, or elsewhere (incoming data, new)
           prevPos == IF g2.found THEN {Flatten(g2.st.prev)[k].pos : k \in 1..Len(Flatten(g2.st.prev))} ELSE {}
       IN FsmFoldEnd(IF ok THEN fin
                     ELSE [fin EXCEPT !.c13 = Append(@, [s |-> i.it.n, values |-> vp, visited |-> lp, fromPrev |-> (vp \ lp) \subseteq prevPos])], fid)

ExecFold(i, ctx) ==
    IF i.it.o = "var" /\ Sigil(i.it.n) \in {"$", "%"} THEN ExecFoldStream(i, ctx)
    ELSE
    LET a == Resolve(ctx, i.it) IN
    IF a.r = "join" THEN Incomplete(ctx)
    ELSE IF a.r = "err" THEN Raise(ctx, ErrOf(a.code))
    ELSE IF a.val.cn THEN (IF Len(a.val.elems) = 0 THEN ctx ELSE FoldOver(i, ctx, a.val.elems, 0))
    ELSE IF ~IsArr(a.val.v) THEN Raise(ctx, Catch(E_FoldNonArray))
    ELSE IF Len(a.val.v.q) = 0 THEN ctx
    ELSE FoldOver(i, ctx, IterVals(a.val), 0)

ExecNext(i, ctx0) ==
    IF i.x \notin DOMAIN ctx0.it THEN Raise(ctx0, Uncatch(U_FoldStateNotFound))
    ELSE
    LET fs == ctx0.it[i.x]
        isStream == fs.stream # 0
        ctx == IF isStream THEN FsmIterationEnd(ctx0, fs.stream) ELSE ctx0 IN
    IF fs.idx >= Len(fs.vals) THEN
        LET c1 == IF isStream THEN FsmBackIterator(ctx, fs.stream) ELSE ctx IN
        IF Failed(c1) THEN c1
        ELSE IF fs.last.op # "none" THEN Exec(fs.last, [c1 EXCEPT !.ok = TRUE, !.lex = fs.lex])
        ELSE IF isStream /\ ~fs.back THEN [c1 EXCEPT !.it[i.x].back = TRUE, !.ok = FALSE]
        ELSE c1
    ELSE
    LET c0 == [ctx EXCEPT !.it[i.x].idx = @ + 1]
        c0b == IF isStream THEN FsmIterationStart(c0, fs.stream, fs.vals[fs.idx + 1].pos) ELSE c0 IN
    IF Failed(c0b) THEN c0b
    ELSE
    LET c1 == MeetNextBefore([c0b EXCEPT !.lex = fs.lex])
        c2 == Exec(fs.body, c1)
        c3 == MeetNextAfter([c2 EXCEPT !.lex = ctx0.lex])
    IN IF Failed(c3) THEN c3
       ELSE LET c4 == [c3 EXCEPT !.it[i.x].idx = @ - 1] IN
            IF isStream THEN FsmBackIterator(c4, fs.stream) ELSE c4

SupportedInstr(i) ==
    CASE i.op = "call" -> Supported(i.peer) /\ Supported(i.srv) /\ Supported(i.fn)
                          /\ (\A j \in 1..Len(i.args) : Supported(i.args[j]))
                          /\ (i.out = "" \/ Sigil(i.out) \notin {"%", "#"})
      [] i.op \in {"seq", "par", "xor", "null", "never", "next"} -> TRUE
      [] i.op = "new" -> Sigil(i.n) # "#"
      [] i.op = "fail" -> i.a.o = "lit" \/ (i.a.o \in {"lasterr", "err"} /\ Len(i.a.lens) = 0)
      [] i.op \in {"match", "mismatch"} -> Supported(i.a) /\ Supported(i.b)
      [] i.op = "ap" -> Supported(i.src) /\ Sigil(i.dst) \notin {"%", "#"}
      [] i.op = "apmap" -> Supported(i.src) /\ Sigil(i.dst) = "%" /\ i.key.o = "lit" /\ i.key.v.t \in {"s", "n"} /\ KeyKnown(i.key.v.s)
      [] i.op = "fold" -> i.it.o = "var" /\ (Supported(i.it) \/ (Sigil(i.it.n) \in {"$", "%"} /\ Len(i.it.lens) = 0))
      [] i.op = "canon" -> Supported(i.peer) /\ ((Sigil(i.s) = "$" /\ Prefix2(i.c) = "#$")
                                                  \/ (Sigil(i.s) = "%" /\ (Prefix2(i.c) = "#%" \/ Sigil(i.c) \notin {"#", "$", "%"})))
      [] OTHER -> FALSE

Exec(i, ctx) ==
    IF ~SupportedInstr(i) THEN
        [ctx EXCEPT !.unsup = TRUE, !.err = Uncatch(-2)]
    ELSE
    CASE i.op = "call"     -> ExecCall(i, ctx)
      [] i.op = "seq"      -> ExecSeq(i, ctx)
      [] i.op = "par"      -> ExecPar(i, ctx)
      [] i.op = "xor"      -> ExecXor(i, ctx)
      [] i.op = "null"     -> ctx
      [] i.op = "never"    -> Incomplete(ctx)
      \* fail.rs fail_with_literals: %last_error% becomes the literal error object unconditionally, then UserError bubbles
      [] i.op = "fail"     -> ExecFail(i, ctx)
      [] i.op = "match"    -> ExecMatch(i, ctx, TRUE)
      [] i.op = "mismatch" -> ExecMatch(i, ctx, FALSE)
      [] i.op = "ap"       -> ExecAp(i, ctx)
      [] i.op = "apmap"    -> ExecApMap(i, ctx)
      [] i.op = "new"      -> ExecNew(i, ctx)
      [] i.op = "fold"     -> ExecFold(i, ctx)
      [] i.op = "next"     -> ExecNext(i, ctx)
      [] i.op = "canon"    -> ExecCanon(i, ctx)
      [] OTHER             -> [ctx EXCEPT !.unsup = TRUE, !.err = Uncatch(-2)]

\* ---------------------------------------------------------------------------
\* farewell (farewell_step/outcome.rs) and the whole run
NameOrder == <<"A", "B", "C", "D", "E", "M", "O", "V">>
SortedNames(S) == SelectSeq(NameOrder, LAMBDA n : n \in S)
SetOf(q) == {q[i] : i \in 1..Len(q)}

\* results: set of [id, rc, v, body]
Interp(script, me, init, prev, cur, results) ==
    LET c0 == InitCtx(me, init, prev.trace, cur.trace, prev.lcid, results)
        cx == Exec(script, c0)
        \* farewell: streams are compacted in both new-data cases (success and catchable error)
        c1 == IF cx.unsup \/ cx.err.cls = "uncatch" THEN cx
              ELSE LET cc == CompactAll([cx EXCEPT !.err = NoErr], AllDescriptors(cx)) IN
                   IF Failed(cc) THEN cc ELSE [cc EXCEPT !.err = cx.err]
        sigs == SortedNames(SetOf(prev.sigs) \cup SetOf(cur.sigs) \cup {me})
        newData == [trace |-> c1.out, lcid |-> c1.lcid, sigs |-> sigs]
    IN  IF c1.unsup THEN [unsup |-> TRUE, kf1 |-> FALSE, c13 |-> <<>>, code |-> -2, data |-> prev, next |-> <<>>, reqs |-> <<>>]
        ELSE IF c1.err.cls = "uncatch" THEN
            [unsup |-> FALSE, kf1 |-> c1.kf1, c13 |-> c1.c13, code |-> c1.err.code, data |-> prev, next |-> <<>>, reqs |-> <<>>]
        ELSE IF c1.err.cls = "catch" THEN
            [unsup |-> FALSE, kf1 |-> c1.kf1, c13 |-> c1.c13, code |-> c1.err.code, data |-> newData, next |-> SortedNames(c1.nx), reqs |-> c1.rq]
        ELSE
            [unsup |-> FALSE, kf1 |-> c1.kf1, c13 |-> c1.c13, code |-> IF c1.res # {} THEN 30000 ELSE 0, data |-> newData,
             next |-> SortedNames(c1.nx), reqs |-> c1.rq]

=============================================================================
