----------------------------- MODULE AirValues -----------------------------
(***************************************************************************)
(* Type-tagged JSON values (so that equality is total in TLC), plain JSON   *)
(* navigation (the oracle of C24), and the fixed deterministic service      *)
(* algebra that the conformance harness implements identically in Rust      *)
(* (harness/src/services.rs).                                               *)
(***************************************************************************)
EXTENDS Naturals, Integers, Sequences, FiniteSets, TLC

\* Uniform shape [t, s, q]: in every value t and s are strings and q is a sequence of values, so
\* TLC can compare any two values (it refuses to compare, say, an integer with a sequence, and the
\* order in which it compares record fields is not specified).  Numbers are kept as decimal text.
V(t, s, q) == [t |-> t, s |-> s, q |-> q]
Str(s) == V("s", s, <<>>)
Num(n) == V("n", ToString(n), <<>>)
NumS(s) == V("n", s, <<>>)
Bool(b) == V("b", IF b THEN "true" ELSE "false", <<>>)
Null == V("z", "", <<>>)
Arr(q) == V("a", "", q)
\* objects: sequence of key/value entries sorted by key
KV(key, val) == V("kv", key, <<val>>)
Obj(kvs) == V("o", "", kvs)
Raw(s) == V("raw", s, <<>>)
Unknown == V("?", "", <<>>)

IsArr(x) == x.t = "a"
IsObj(x) == x.t = "o"
IsStr(x) == x.t = "s"
IsNum(x) == x.t = "n"

\* the value stored for a failed call: CallServiceFailed{ret_code, message} as JSON
FailedValue(rc, body) == Obj(<<KV("message", Str(body)), KV("ret_code", Num(rc))>>)
\* a ret_code-0 result whose body is not JSON (try_to_service_result): recorded as a failed call with ret_code i32::MAX
\* and a message that embeds the decoder's text; the specification knows that text for the one junk body of the algebra
JunkDecodeText(body) == IF body = "not json{" THEN "expected ident at line 1 column 2" ELSE "?"
UndecodableValue(body) ==
    FailedValue(2147483647, "call_service result 'ret_code: 0, result: '" \o body
                            \o "'' can't be serialized or deserialized with an error: " \o JunkDecodeText(body))

Quote(s) == "\"" \o s \o "\""

(***************************************************************************)
(* Service(srv, fn, args): [rc, v, body] -- v is the JSON value of the      *)
(* result (or Raw when the body is not JSON), body its text when needed.    *)
(***************************************************************************)
Service(srv, fn, args) ==
    CASE srv = "e"    -> [rc |-> 1, v |-> Str("err:" \o fn), body |-> Quote("err:" \o fn)]
      [] srv = "l2"   -> [rc |-> 0, v |-> Arr(<<Str(fn \o ".0"), Str(fn \o ".1")>>), body |-> ""]
      [] srv = "l3"   -> [rc |-> 0, v |-> Arr(<<Str(fn \o ".0"), Str(fn \o ".1"), Str(fn \o ".2")>>), body |-> ""]
      [] srv = "arr"  -> [rc |-> 0, v |-> Arr(args), body |-> ""]
      [] srv = "id"   -> [rc |-> 0, v |-> IF Len(args) > 0 THEN args[1] ELSE Null, body |-> ""]
      [] srv = "junk" -> [rc |-> 0, v |-> Raw("not json{"), body |-> "not json{"]
      [] srv = "n"    -> [rc |-> 0, v |-> Num(Len(args)), body |-> ""]
      [] srv = "o"    -> [rc |-> 0,
                          v |-> Obj(<<KV("a", IF Len(args) > 0 THEN args[1] ELSE Str(fn)),
                                      KV("b", Arr(<<Str(fn), Str("x")>>)),
                                      KV("n", Num(1))>>),
                          body |-> ""]
      [] OTHER        -> [rc |-> 0, v |-> Arr(<<Str(fn)>> \o args), body |-> ""]

\* services whose result the specification can recompute (everything except the 1000-byte one)
ServiceKnown(srv) == srv # "big"

(***************************************************************************)
(* Plain JSON navigation.  A path step is [lk |-> "field", name |-> f] or   *)
(* [lk |-> "idx", ix |-> n].  Result: [ok |-> TRUE, v |-> value] or         *)
(* [ok |-> FALSE, v |-> Null].                                              *)
(***************************************************************************)
NoNav == [ok |-> FALSE, v |-> Null]
Lookup(kvs, key) ==
    LET hits == {i \in 1..Len(kvs) : kvs[i].s = key}
    IN IF hits = {} THEN NoNav ELSE [ok |-> TRUE, v |-> kvs[CHOOSE i \in hits : TRUE].q[1]]

Step(x, st) ==
    IF st.lk = "field" THEN
        IF IsObj(x) THEN Lookup(x.q, st.name) ELSE NoNav
    ELSE IF st.lk = "idx" THEN
        IF IsArr(x) /\ st.ix >= 0 /\ st.ix < Len(x.q) THEN [ok |-> TRUE, v |-> x.q[st.ix + 1]] ELSE NoNav
    ELSE NoNav

RECURSIVE NavFrom(_, _, _)
NavFrom(x, path, i) ==
    IF i > Len(path) THEN [ok |-> TRUE, v |-> x]
    ELSE LET r == Step(x, path[i]) IN IF r.ok THEN NavFrom(r.v, path, i + 1) ELSE NoNav

Nav(x, path) == NavFrom(x, path, 1)

=============================================================================
