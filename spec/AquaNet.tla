------------------------------ MODULE AquaNet ------------------------------
(***************************************************************************)
(* Protocol layer: peers exchanging data blobs of one particle, hosts      *)
(* answering call requests asynchronously.  The interpreter run is a       *)
(* parameter (the outcome o of RunStep): the design specification (MCNet)  *)
(* instantiates it with the model interpreter AirInterp!Interp, the trace  *)
(* specification (TraceNet) with the outcome logged from the real          *)
(* air::execute_air.  The state is one record so that both can carry it    *)
(* in a single variable and property operators (Props) take it as an       *)
(* argument.                                                               *)
(*                                                                         *)
(* Messages are references <<from, ver, to>> to the ver-th datum `from`    *)
(* produced; `wanted` never shrinks and any wanted message may be          *)
(* delivered at any time, any number of times: duplication, delay,         *)
(* reordering and staleness are interleavings, loss is a message never     *)
(* picked.                                                                 *)
(***************************************************************************)
EXTENDS Naturals, Integers, Sequences, FiniteSets, AirData

Names == {"A", "B", "C", "D", "E", "O", "V", "M"}

NoMsg == [from |-> "-", ver |-> 0]

InitState(script, names, init) ==
    [ script   |-> script,
      names    |-> names,
      init     |-> init,
      started  |-> FALSE,
      runs     |-> 0,
      store    |-> [n \in Names |-> EmptyData],
      sent     |-> [n \in Names |-> <<>>],
      wanted   |-> {},
      once     |-> {},                        \* wanted messages delivered at least once
      pending  |-> [n \in Names |-> {}],      \* request records [id, srv, fn, args] awaiting a host result
      issued   |-> [n \in Names |-> <<>>],    \* every request record ever handed to the host, in order
      answered |-> [n \in Names |-> {}] ]     \* request records whose result was handed back

ReqRec(r) == [id |-> r.id, srv |-> r.srv, fn |-> r.fn, args |-> r.args]

SeqToSet(q) == {q[i] : i \in 1..Len(q)}

RECURSIVE AppendAll(_, _, _)
AppendAll(q, rs, i) == IF i > Len(rs) THEN q ELSE AppendAll(Append(q, ReqRec(rs[i])), rs, i + 1)

CurData(st, cur) ==
    IF cur.ver = 0 THEN EmptyData ELSE st.sent[cur.from][cur.ver]

CurValid(st, cur) ==
    cur.ver = 0 \/ (cur.from \in Names /\ cur.ver >= 1 /\ cur.ver <= Len(st.sent[cur.from]))

\* the requests answered in this step: pending requests whose id is in resIds
Answered(st, p, resIds) == {r \in st.pending[p] : r.id \in resIds}

(***************************************************************************)
(* One run of the interpreter on peer p with current data `cur` (a message *)
(* reference or NoMsg) and host results for the pending requests resIds.   *)
(* o = [data, next (sequence of names, no duplicates), reqs, newver].      *)
(* Host contract (air/README.md): whatever data comes back is stored.      *)
(***************************************************************************)
RunStep(st, p, cur, resIds, o) ==
    LET ans     == Answered(st, p, resIds)
        newReqs == {ReqRec(o.reqs[i]) : i \in 1..Len(o.reqs)}
        grows   == o.newver = Len(st.sent[p]) + 1
        sent2   == IF grows THEN Append(st.sent[p], o.data) ELSE st.sent[p]
        msgs    == IF o.newver = 0 THEN {} ELSE {<<p, o.newver, o.next[i]>> : i \in 1..Len(o.next)}
    IN [st EXCEPT
          !.started  = TRUE,
          !.runs     = @ + 1,
          !.store    = [@ EXCEPT ![p] = o.data],
          !.sent     = [@ EXCEPT ![p] = sent2],
          !.wanted   = @ \cup msgs,
          !.once     = IF cur.ver = 0 THEN @ ELSE @ \cup {<<cur.from, cur.ver, p>>},
          !.pending  = [@ EXCEPT ![p] = (@ \ ans) \cup newReqs],
          !.issued   = [@ EXCEPT ![p] = AppendAll(@, o.reqs, 1)],
          !.answered = [@ EXCEPT ![p] = @ \cup ans] ]

\* every wanted message delivered at least once and no host result outstanding
Quiescent(st) ==
    /\ st.started
    /\ st.wanted \subseteq st.once
    /\ \A n \in Names : st.pending[n] = {}

=============================================================================
