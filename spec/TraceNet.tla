------------------------------ MODULE TraceNet ------------------------------
(***************************************************************************)
(* Trace specification: validates NDJSON recorded by the conformance        *)
(* harness from the real air::execute_air against AquaNet, re-using its     *)
(* RunStep with the logged outcome substituted for the model's, and         *)
(* evaluates the property operators of Props on the implementation's        *)
(* states.  Events are fully logged, so the search is linear.               *)
(*                                                                          *)
(* A violated property prints a line <<"VIOLATION", id, hid, step>> (the    *)
(* wrapper turns it into the verdict, after consulting known_findings.json) *)
(* instead of stopping TLC, so that one run reports every violation of the  *)
(* trace and no multi-megabyte error trace is printed.                      *)
(***************************************************************************)
EXTENDS Props, TLC, Json, IOUtils

Rec == ndJsonDeserialize(IOEnv.TRACE)

VARIABLES l, pre, st
vars == <<l, pre, st>>

Blank == InitState(<<>>, {}, "A")

Init == l = 1 /\ pre = Blank /\ st = Blank

ResIds(e) == {e.res[i].id : i \in 1..Len(e.res)}

\* consistency of the harness itself (a failure here is a tool error, never a verdict)
Consistent(s, e) ==
    /\ e.peer \in Names
    /\ CurValid(s, e.cur)
    /\ e.out.newver \in {Len(s.sent[e.peer]), Len(s.sent[e.peer]) + 1}
    /\ (e.kind = "start") = ~s.started

EvReset ==
    LET e == Rec[l] IN
    /\ e.k = "reset"
    /\ st' = InitState(e.script, SeqToSet(e.peers), e.init)
    /\ pre' = st'

EvRun ==
    LET e == Rec[l] IN
    /\ e.k = "run"
    /\ Consistent(st, e)
    /\ pre' = st
    /\ st' = RunStep(st, e.peer, e.cur, ResIds(e), e.out)

EvObs == Rec[l].k = "obs" /\ UNCHANGED <<pre, st>>

Next == l <= Len(Rec) /\ l' = l + 1 /\ (EvReset \/ EvRun \/ EvObs)

Spec == Init /\ [][Next]_vars

-----------------------------------------------------------------------------
Last == Rec[l - 1]
IsRun == l > 1 /\ Last.k = "run"
IsObs == l > 1 /\ Last.k = "obs"

Report(id, ok) == ok \/ PrintT(<<"VIOLATION", id, Last.hid, Last.step>>)

InvC02 == IsRun => Report("C02", C02(pre, Last))
InvC03 == IsRun => Report("C03", C03(pre, Last))
InvC04 == (IsRun => Report("C04", C04(pre, Last))) /\ (IsObs => Report("C04", C04obs(Last)))
InvC05 == IsRun => Report("C05", C05(pre, st, Last))
InvC06 == IsRun => Report("C06", C06(pre, st, Last))
InvC07 == IsRun => Report("C07", C07(pre, Last))
InvC08 == IsObs => Report("C08", C08(Last))
InvC09 == IsRun => Report("C09", C09(pre, Last))
InvC10 == (IsRun => Report("C10", C10(pre, Last))) /\ (IsObs => Report("C10", C10obs(Last)))
InvC19 == (IsRun => Report("C19", C19(pre, Last))) /\ (IsObs => Report("C19", C19d(Last)))
InvC20 == IsRun => Report("C20", C20(pre, Last))
InvC27 == IsRun => Report("C27", C27(pre, Last))

\* acceptance: every record consumed
TraceAccepted ==
    LET d == TLCGet("stats").diameter IN
    IF d - 1 = Len(Rec) THEN TRUE
    ELSE Print(<<"TRACE-REJECTED at record", d, "of", Len(Rec)>>, FALSE)
=============================================================================
