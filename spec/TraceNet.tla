------------------------------ MODULE TraceNet ------------------------------
(***************************************************************************)
(* Trace specification: validates NDJSON recorded by the conformance        *)
(* harness from the real air::execute_air against AquaNet, re-using its     *)
(* RunStep with the logged outcome substituted for the model's, and         *)
(* evaluates the property operators of Props on the implementation's        *)
(* states.  Events are fully logged, so the search is linear.               *)
(*                                                                          *)
(* A violated property prints a line <<"VIOLATION", id, hid, step>> (the    *)
(* wrapper turns it into the verdict, after consulting known_findings.json) *)
(* instead of stopping TLC, so that one run reports every violation of the  *)
(* trace and no multi-megabyte error trace is printed.                      *)
(***************************************************************************)
EXTENDS Props, SeqSem, TLC, Json, IOUtils

Rec == ndJsonDeserialize(IOEnv.TRACE)

VARIABLES l, pre, st, aux
vars == <<l, pre, st, aux>>

Blank == InitState(<<>>, {}, "A")

NoAux == [infrag |-> FALSE, seq |-> <<>>, str |-> <<>>, stuck |-> FALSE, joinfree |-> FALSE, feats |-> {}]
Init == l = 1 /\ pre = Blank /\ st = Blank /\ aux = NoAux

ResIds(e) == {e.res[i].id : i \in 1..Len(e.res)}

\* consistency of the harness itself (a failure here is a tool error, never a verdict)
Consistent(s, e) ==
    /\ e.peer \in Names
    /\ CurValid(s, e.cur)
    /\ e.out.newver \in {Len(s.sent[e.peer]), Len(s.sent[e.peer]) + 1}
    /\ (e.kind = "start") = ~s.started

EvReset ==
    LET e == Rec[l] IN
    /\ e.k = "reset"
    /\ st' = InitState(e.script, SeqToSet(e.peers), e.init)
    /\ pre' = st'
    /\ aux' = IF InFragment(e.script, FALSE)
              THEN LET r == SeqRun(e.script, e.init) IN [infrag |-> TRUE, seq |-> r.calls, str |-> r.tr, stuck |-> r.stuck, joinfree |-> e.joinfree, feats |-> SeqToSet(e.feats)]
              ELSE [NoAux EXCEPT !.joinfree = e.joinfree, !.feats = SeqToSet(e.feats)]

EvRun ==
    LET e == Rec[l] IN
    /\ e.k = "run"
    /\ (e.out.died # "" \/ Consistent(st, e))
    /\ pre' = st
    \* a run that died returned nothing: the host keeps what it had (and the death itself is C01's business)
    /\ st' = IF e.out.died # "" THEN st ELSE RunStep(st, e.peer, e.cur, ResIds(e), e.out)
    /\ aux' = aux

EvObs == Rec[l].k = "obs" /\ UNCHANGED <<pre, st, aux>>

Next == l <= Len(Rec) /\ l' = l + 1 /\ (EvReset \/ EvRun \/ EvObs)

Spec == Init /\ [][Next]_vars

-----------------------------------------------------------------------------
Last == Rec[l - 1]
IsRun == l > 1 /\ Last.k = "run"
IsObs == l > 1 /\ Last.k = "obs"

Report(id, ok) == ok \/ PrintT(<<"VIOLATION", id, Last.hid, Last.step>>)

\* C01 on honest histories: no run of the real interpreter dies (panic, abort), whatever the script and the schedule;
\* the observer's merges are runs too
InvC01 == (IsRun => Report("C01", Last.out.died = ""))
          /\ (IsObs => Report("C01", \A i \in 1..Len(Last.results) : \A j \in 1..Len(Last.results[i].codes) : Last.results[i].codes[j] # -1))
InvC02 == IsRun => Report("C02", C02(pre, Last))
InvC03 == IsRun => Report("C03", C03(pre, Last))
InvC04 == (IsRun => Report("C04", C04(pre, Last))) /\ (IsObs => Report("C04", C04obs(Last)))
InvC05 == IsRun => Report("C05", C05(pre, st, Last) /\ C05answered(pre, Last))
InvC06 == IsRun => Report("C06", C06(pre, st, Last))
InvC07 == IsRun => Report("C07", C07(pre, Last))
InvC08 == IsObs => Report("C08", C08(Last))
InvC09 == (IsRun => Report("C09", C09(pre, Last))) /\ (IsObs => Report("C09", C09obs(st, Last)))
InvC10 == (IsRun => Report("C10", C10(pre, Last))) /\ (IsObs => Report("C10", C10obs(Last)))
\* C16 / C17 / C19a: every request a host received is one the sequential reading makes (as bags, per peer),
\* with the same peer, service, function, argument values (C16) and tetraplets (C17)
BagOfSeq(q, key(_)) == LET ks == {key(q[i]) : i \in 1..Len(q)} IN [k \in ks |-> Cardinality({i \in 1..Len(q) : key(q[i]) = k})]
IssuedKeys(p, withTets) ==
    LET q == IF withTets THEN Last.out.reqs ELSE st.issued[p] IN
    IF withTets THEN BagOfSeq(q, LAMBDA r : <<p, r.srv, r.fn, r.args, r.tets>>)
    ELSE BagOfSeq(q, LAMBDA r : <<p, r.srv, r.fn, r.args>>)
SeqKeys(withTets) ==
    IF withTets THEN BagOfSeq(aux.seq, LAMBDA c : <<c.p, c.srv, c.fn, c.args, c.tets>>)
    ELSE BagOfSeq(aux.seq, LAMBDA c : <<c.p, c.srv, c.fn, c.args>>)
\* ... and no peer takes a branch or runs an iteration the sequential reading does not reach: the trace it returns
\* follows the sequential trace block by block (SeqSem!FollowsSequential)
InvC16 == (IsRun /\ aux.infrag /\ ~aux.stuck) =>
    /\ Report("C16", BagSubset(IssuedKeys(Last.peer, FALSE), SeqKeys(FALSE)))
    /\ ((Last.out.died = "" /\ ReturnsNewData(Last.out.code)) => Report("C16", FollowsSequential(Last.out.data.trace, aux.str)))
\* C17: each request of this run carries the tetraplets the sequential reading predicts (a request is
\* compared with the sequential calls of the same peer, service, function and arguments).
\* Known finding "functor-length": for an argument `x.length` the implementation hands out ("", "", "", ".length"),
\* dropping the producer of x (pinned upstream by the test functor_dont_influence_tetraplet).
FunctorTetraplet == <<[p |-> "", s |-> "", f |-> "", lens |-> ".length"]>>
IsLengthLens(s) == Len(s) >= 7 /\ SubSeq(s, Len(s) - 6, Len(s)) = ".length"
ArgTetsAgree(impl, orac, relaxed) ==
    /\ Len(impl) = Len(orac)
    /\ \A j \in 1..Len(impl) :
          \/ impl[j] = orac[j]
          \/ (relaxed /\ impl[j] = FunctorTetraplet /\ Len(orac[j]) = 1 /\ IsLengthLens(orac[j][1].lens))
ReqTetsOk(r, relaxed) ==
    LET cands == {j \in 1..Len(aux.seq) : SeqCallKey(aux.seq[j]) = <<Last.peer, r.srv, r.fn, r.args>>} IN
    cands = {} \/ \E j \in cands : ArgTetsAgree(r.tets, aux.seq[j].tets, relaxed)
InvC17 == (IsRun /\ aux.infrag /\ ~aux.stuck) =>
    LET strict == \A i \in 1..Len(Last.out.reqs) : ReqTetsOk(Last.out.reqs[i], FALSE)
        relaxed == \A i \in 1..Len(Last.out.reqs) : ReqTetsOk(Last.out.reqs[i], TRUE)
    IN IF strict THEN TRUE
       ELSE IF relaxed THEN PrintT(<<"VIOLATION", "C17", Last.hid, Last.step, "functor-length">>)
       ELSE PrintT(<<"VIOLATION", "C17", Last.hid, Last.step>>)

\* fragment statistics for the evidence (vacuity)
InvAux == (l > 1 /\ Last.k = "reset") => PrintT(<<"AUX", Last.hid, aux.infrag, aux.stuck, Len(aux.seq)>>)

\* C15, honest part: in honest histories the per-peer result bags of previous and current data are always
\* nested, the run is not rejected for them, and the new data keeps the larger one
C15honest(s, e) ==
    LET pt == s.store[e.peer].trace  ct == CurData(s, e.cur).trace IN
    \A q \in AttributedPeers(pt) \cup AttributedPeers(ct) :
        /\ Nested(CidBag(pt, q), CidBag(ct, q))
        /\ e.out.code # 9
        /\ ReturnsNewData(e.out.code) /\ e.out.code # 30000 /\ Class(e.out.code) # "catch" =>
              (BagSubset(CidBag(pt, q), CidBag(e.out.data.trace, q)) /\ BagSubset(CidBag(ct, q), CidBag(e.out.data.trace, q)))
InvC15 == (IsRun /\ Last.out.died = "") => Report("C15", C15honest(pre, Last))

InvC19 == (IsRun => Report("C19", C19(pre, Last))) /\ (IsObs => Report("C19", C19d(Last)))
InvC20 == IsRun => Report("C20", C20(pre, Last))
InvC27 == IsRun => Report("C27", C27(pre, Last))

\* acceptance: every record consumed
TraceAccepted ==
    LET d == TLCGet("stats").diameter IN
    IF d - 1 = Len(Rec) THEN TRUE
    ELSE Print(<<"TRACE-REJECTED at record", d, "of", Len(Rec)>>, FALSE)
=============================================================================
