"""Function-level checks (C21-C24, C28): TLC enumerates the case space of FnSpec, the harness executes every
case on the real code, TLC validates the records against the specification's expected decision."""
import json, os, re, time
from common import *


def _cfg(wd, name, spec, invs, post=None):
    path = os.path.join(wd, name)
    with open(path, "w") as f:
        f.write(f"SPECIFICATION {spec}\nCHECK_DEADLOCK FALSE\n")
        for i in invs:
            f.write(f"INVARIANT {i}\n")
        if post:
            f.write(f"POSTCONDITION {post}\n")
    return path


def run_fn_resilient(cpath, rpath, wd):
    """`aqua-harness fn` with a journal: a death of the process (stack overflow, abort, OOM) on a case is recorded
    as an observation of that case (died), and the run resumes after it."""
    import subprocess
    journal = os.path.join(wd, "journal_fn.txt")
    parts, killed, skip = [], [], 0
    total = sum(1 for _ in open(cpath))
    for attempt in range(100):
        part = os.path.join(wd, f"fnrecords_part{attempt}.ndjson")
        cmd = f"ulimit -v 8000000; exec {HARNESS} fn --in {cpath} --out {part} --journal {journal} --skip {skip}"
        try:
            p = subprocess.run(["bash", "-c", cmd], stdout=subprocess.PIPE, stderr=subprocess.PIPE, text=True, timeout=3000)
            rc = p.returncode
        except subprocess.TimeoutExpired:
            rc = -9
        parts.append(part)
        if rc == 0:
            break
        try:
            jl = open(journal).read().split("\n")
            n = int(jl[0])
            case = json.loads(jl[1])
        except Exception:
            raise ToolError("harness fn died without a journal entry")
        killed.append(n)
        died = f"process died (exit {rc})"
        with open(part, "a") as f:
            f.write(json.dumps({"k": "fn", "n": n, "case": case,
                                "obs": {"parse": "panic", "beautify": "panic", "pretty": "panic", "exec_died": died, "exec_code": -1,
                                        "res": "panic", "lines": [], "eqprev": False}}) + "\n")
        skip = n
        if skip >= total:
            break
    with open(rpath, "w") as out:
        for part in parts:
            if os.path.exists(part):
                for l in open(part, errors='replace'):
                    if l.endswith("\n"):
                        try:
                            json.loads(l)
                            out.write(l)
                        except ValueError:
                            pass
    return {"cases": total}, killed


def run_family(pid, family, tier, wd, module="FnSpec.tla"):
    env = {"FAMILY": family, "TIER": tier, "PROP": pid, "TRACE": os.path.join(wd, "none.ndjson")}
    open(env["TRACE"], "w").close()
    # (1) TLC enumerates the case space
    e = run_tlc(module, _cfg(wd, f"emit_{family}.cfg", "EmitSpec", ["EmitCase"]), wd, env=env, workers=4, timeout=1800, heap="8g")
    cases = [m.group(1).replace('\\"', '"').replace('\\\\', '\\') for m in re.finditer(r'<<"CASE", "(.*)">>', e["out"])]
    if not cases or e["errors"]:
        log(tlc_tail(e))
        raise ToolError(f"enumeration of family {family} failed")
    cpath = os.path.join(wd, f"cases_{family}.ndjson")
    with open(cpath, "w") as f:
        for c in cases:
            f.write(c + "\n")
    # (2) every case is executed on the real code
    rpath = os.path.join(wd, f"records_{family}.ndjson")
    st, killed = run_fn_resilient(cpath, rpath, wd)
    # (3) TLC validates the records against the specification
    env["TRACE"] = rpath
    v = run_tlc(module, _cfg(wd, f"check_{family}.cfg", "CheckSpec", ["CheckCase"], "AllExecuted"), wd, env=env, workers=1, timeout=3000, heap="8g")
    if v["rejected"] or not v["completed"] or v["errors"]:
        log(tlc_tail(v))
        raise ToolError(f"validation of family {family} did not complete (tool error, not a verdict)")
    return {"family": family, "enumerated_states": e["states"], "cases": len(cases), "executed": st.get("cases", 0),
            "validated_states": v["states"], "violations": v["violations"], "records": rpath,
            "wall": round(e["wall"] + v["wall"], 1), "killed": killed}


def record_of(rpath, n):
    for l in open(rpath):
        if f'"n":{n},' in l or f'"n":{n}}}' in l or f'"n": {n},' in l:
            r = json.loads(l)
            if r.get("n") == n:
                return r
    return None


def samples(rpath, k=3):
    out = []
    for i, l in enumerate(open(rpath)):
        if i % 97 == 0:
            r = json.loads(l)
            out.append({"case": r["case"], "observed": r["obs"]})
        if len(out) >= k:
            break
    return out
