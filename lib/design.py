"""Design-level runs: TLC on MCNet (AquaNet + the model interpreter) for catalogue scripts:
   (a) exhaustive exploration of all schedules within bounds, property operators checked on every transition;
   (b) emission of behaviours (schedules) that the harness replays on the real code."""
import json, os, re
from common import *

CAT = os.path.join(SPEC, "catalogue")


def _cfg(wd, name, max_runs, max_deliv, max_bogus, view, invs, ids=()):
    path = os.path.join(wd, name)
    with open(path, "w") as f:
        f.write("SPECIFICATION Spec\nCONSTANTS\n")
        f.write(f"  MaxRuns = {max_runs}\n  MaxDeliveries = {max_deliv}\n  MaxBogus = {max_bogus}\n")
        f.write("  CheckIds = {" + ", ".join('"%s"' % i for i in ids) + "}\n")
        if view:
            f.write("VIEW View\n")
        for i in invs:
            f.write(f"INVARIANT {i}\n")
        f.write("CHECK_DEADLOCK FALSE\n")
    return path


def explore(wd, script, max_runs, max_deliv=2, max_bogus=1, workers=6, timeout=1500, ids=()):
    """Exhaustive model checking of one catalogue script. Returns dict(states, transitions, model_violation)."""
    cfg = _cfg(wd, f"MC_{script}.cfg", max_runs, max_deliv, max_bogus, True, ["NoViolation"], ids)
    res = run_tlc("MCNet.tla", cfg, wd, env={"SCRIPT": os.path.join(CAT, script + ".json")}, workers=workers, timeout=timeout, heap="8g")
    mv = None
    m = re.search(r'<<"MODELVIOL", (\{[^}]*\}), "(.*)">>', res["out"])
    if m:
        mv = {"props": re.findall(r'"(C\d+)"', m.group(1)), "schedule": json.loads(m.group(2).replace('\\"', '"'))}
    elif not res["completed"] or res["errors"]:
        log(tlc_tail(res))
        raise ToolError(f"design run for {script} did not complete")
    return {"script": script, "states": res["states"], "transitions": res["transitions"], "model_violation": mv,
            "bounds": {"MaxRuns": max_runs, "MaxDeliveries": max_deliv, "MaxBogus": max_bogus}, "wall": round(res["wall"], 1)}


def emit(wd, script, max_runs, max_deliv=2, max_bogus=1, simulate=None, cap=400, workers=4, timeout=900):
    """Behaviours of the design spec as explicit schedules. simulate=None: every path (small instances only)."""
    cfg = _cfg(wd, f"EM_{script}.cfg", max_runs, max_deliv, max_bogus, False, ["EmitSchedules"])
    res = run_tlc("MCNet.tla", cfg, wd, env={"SCRIPT": os.path.join(CAT, script + ".json")}, workers=1 if simulate else workers,
                  timeout=timeout, heap="8g", simulate=simulate, extra=(["-seed", str(seed())] if simulate else None))
    scheds, seen = [], set()
    for m in re.finditer(r'<<"SCHED", "(.*)">>', res["out"]):
        s = m.group(1).replace('\\"', '"')
        if s in seen:
            continue
        seen.add(s)
        scheds.append(json.loads(s))
    # keep maximal schedules only (a prefix of another emitted schedule adds nothing)
    keys = sorted((json.dumps(s) for s in scheds), key=len, reverse=True)
    keep = []
    for k in keys:
        body = k[:-1]
        if not any(o.startswith(body) and o != k for o in keep):
            keep.append(k)
        if len(keep) >= cap:
            break
    entry = json.load(open(os.path.join(CAT, script + ".json")))
    hs = []
    for k in keep:
        h = dict(entry)
        h["steps"] = json.loads(k)
        h["observe"] = True
        h["source"] = "tlc:" + script
        hs.append(h)
    return hs, {"script": script, "emitted": len(scheds), "kept": len(keep), "states": res["states"]}
