"""Design-level runs: TLC on MCNet (AquaNet + the model interpreter) for catalogue scripts:
   (a) exhaustive exploration of all schedules within bounds, property operators checked on every transition;
   (b) emission of behaviours (schedules) that the harness replays on the real code."""
import json, os, re
from common import *

CAT = os.path.join(SPEC, "catalogue")


def _cfg(wd, name, max_runs, max_deliv, max_bogus, view, invs, ids=()):
    path = os.path.join(wd, name)
    with open(path, "w") as f:
        f.write("SPECIFICATION Spec\nCONSTANTS\n")
        f.write(f"  MaxRuns = {max_runs}\n  MaxDeliveries = {max_deliv}\n  MaxBogus = {max_bogus}\n")
        f.write("  CheckIds = {" + ", ".join('"%s"' % i for i in ids) + "}\n")
        if view:
            f.write("VIEW View\n")
        for i in invs:
            f.write(f"INVARIANT {i}\n")
        f.write("CHECK_DEADLOCK FALSE\n")
    return path


def explore(wd, script, max_runs, max_deliv=2, max_bogus=1, workers=6, timeout=1500, ids=()):
    """Exhaustive model checking of one catalogue script. Returns dict(states, transitions, model_violation)."""
    cfg = _cfg(wd, f"MC_{script}.cfg", max_runs, max_deliv, max_bogus, True, ["NoViolation", "Convergence"], ids)
    res = run_tlc("MCNet.tla", cfg, wd, env={"SCRIPT": os.path.join(CAT, script + ".json")}, workers=workers, timeout=timeout, heap="8g")
    mv = None
    m = re.search(r'<<"MODELVIOL", (\{[^}]*\}), "(.*)", \d+>>', res["out"])
    if m:
        mv = {"props": re.findall(r'"(C\d+)"', m.group(1)), "schedule": json.loads(m.group(2).replace('\\"', '"'))}
    elif not res["completed"] or res["errors"]:
        log(tlc_tail(res))
        raise ToolError(f"design run for {script} did not complete")
    return {"script": script, "states": res["states"], "transitions": res["transitions"], "model_violation": mv,
            "bounds": {"MaxRuns": max_runs, "MaxDeliveries": max_deliv, "MaxBogus": max_bogus}, "wall": round(res["wall"], 1)}


def emit(wd, script, max_runs, max_deliv=2, max_bogus=1, simulate=None, cap=400, workers=4, timeout=900):
    """Behaviours of the design spec as explicit schedules. simulate=None: every path (small instances only)."""
    cfg = _cfg(wd, f"EM_{script}.cfg", max_runs, max_deliv, max_bogus, False, ["EmitSchedules"])
    res = run_tlc("MCNet.tla", cfg, wd, env={"SCRIPT": os.path.join(CAT, script + ".json")}, workers=1 if simulate else workers,
                  timeout=timeout, heap="8g", simulate=simulate, extra=(["-seed", str(seed())] if simulate else None))
    scheds, seen = [], set()
    for m in re.finditer(r'<<"SCHED", "(.*)", \d+>>', res["out"]):
        s = m.group(1).replace('\\"', '"')
        if s in seen:
            continue
        seen.add(s)
        scheds.append(json.loads(s))
    # keep maximal schedules only (a prefix of another emitted schedule adds nothing)
    keys = sorted((json.dumps(s) for s in scheds), key=len, reverse=True)
    keep = []
    for k in keys:
        body = k[:-1]
        if not any(o.startswith(body) and o != k for o in keep):
            keep.append(k)
        if len(keep) >= cap:
            break
    entry = json.load(open(os.path.join(CAT, script + ".json")))
    hs = []
    for k in keep:
        h = dict(entry)
        h["steps"] = json.loads(k)
        h["observe"] = True
        h["source"] = "tlc:" + script
        hs.append(h)
    return hs, {"script": script, "emitted": len(scheds), "kept": len(keep), "states": res["states"]}


# ---------------------------------------------------------------------------------------------------------------
# generated script family (spec/ScriptGen.tla): TLC takes one initial state per script of the family
def _gen_env(k, level, window=None):
    env = {"GEN_K": k, "GEN_LEVEL": level}
    if window:
        env["GEN_FROM"], env["GEN_TO"] = window
    return env


def gen_scripts(wd, k, level):
    """The family itself, as catalogue-like entries (script index -> entry)."""
    cfg = _cfg(wd, f"GS_{k}_{level}.cfg", 0, 0, 0, True, ["EmitScripts"])
    res = run_tlc("MCNet.tla", cfg, wd, env=_gen_env(k, level), workers=1, timeout=900, heap="4g")
    out = {}
    for m in re.finditer(r'<<"GENSCRIPT", (\d+), "(.*)">>', res["out"]):
        out[int(m.group(1))] = json.loads(m.group(2).replace('\\"', '"'))
    if not out:
        log(tlc_tail(res))
        raise ToolError("script family emission failed")
    peers = ["A", "B", "C"] if level >= 3 else ["A", "B"]
    return {i: {"hid": 0, "name": f"G{k}.{level}.{i}", "script": s, "init": "A", "peers": peers, "particle": "particle-1",
                "source": f"scriptgen:{k}:{level}:{i}", "joinfree": False} for i, s in out.items()}


def explore_gen(wd, k, level, max_runs, max_deliv=1, max_bogus=0, workers=8, timeout=3000, ids=(), window=None):
    """Exhaustive model checking of every schedule of every script of the family (or an index window of it)."""
    cfg = _cfg(wd, f"MCG_{k}_{level}.cfg", max_runs, max_deliv, max_bogus, True, ["NoViolation", "Convergence"], ids)
    res = run_tlc("MCNet.tla", cfg, wd, env=_gen_env(k, level, window), workers=workers, timeout=timeout, heap="12g")
    mv = None
    m = re.search(r'<<"MODELVIOL", (\{[^}]*\}), "(.*)", (\d+)>>', res["out"])
    if m:
        mv = {"props": re.findall(r'"(C\d+)"', m.group(1)), "schedule": json.loads(m.group(2).replace('\\"', '"')), "sid": int(m.group(3))}
    elif not res["completed"] or res["errors"]:
        log(tlc_tail(res))
        raise ToolError(f"design run for the generated family {k}/{level} did not complete")
    ninit = re.search(r"Finished computing initial states: (\d+) distinct state", res["out"])
    return {"script": f"ScriptGen!Family({k},{level})" + (f"[{window[0]}..{window[1]}]" if window else ""),
            "scripts": int(ninit.group(1)) if ninit else 0, "states": res["states"], "transitions": res["transitions"],
            "model_violation": mv, "bounds": {"MaxRuns": max_runs, "MaxDeliveries": max_deliv, "MaxBogus": max_bogus}, "wall": round(res["wall"], 1)}


def emit_gen(wd, entries, k, level, max_runs, max_deliv=1, max_bogus=0, simulate="num=300", cap=300, window=None, timeout=900):
    """Random behaviours (script x schedule) of the family for replay on the implementation."""
    cfg = _cfg(wd, f"EMG_{k}_{level}.cfg", max_runs, max_deliv, max_bogus, False, ["EmitSchedules"])
    res = run_tlc("MCNet.tla", cfg, wd, env=_gen_env(k, level, window), workers=1 if simulate else 4, timeout=timeout, heap="8g",
                  simulate=simulate, extra=(["-seed", str(seed())] if simulate else None))
    seen, hs = set(), []
    for m in re.finditer(r'<<"SCHED", "(.*)", (\d+)>>', res["out"]):
        key = (m.group(2), m.group(1))
        if key in seen:
            continue
        seen.add(key)
    # maximal schedules per script
    by = {}
    for sid, s in seen:
        by.setdefault(int(sid), []).append(s.replace('\\"', '"'))
    for sid, lst in sorted(by.items()):
        lst.sort(key=len, reverse=True)
        keep = []
        for k2 in lst:
            if not any(o.startswith(k2[:-1]) and o != k2 for o in keep):
                keep.append(k2)
        for k2 in keep[:3]:
            h = dict(entries[sid])
            h["steps"] = json.loads(k2)
            h["observe"] = True
            h["source"] = entries[sid]["source"] + ":tlc"
            hs.append(h)
    return hs[:cap], {"script": f"ScriptGen!Family({k},{level})", "emitted": len(seen), "kept": min(len(hs), cap), "states": res["states"]}
