#!/bin/sh
# mutant_test.sh <patch.diff> <tier> <prop> [<prop> ...]
# Applies a seeded change to /repo, runs the named checks, and always restores /repo afterwards.
PATCH="$1"; TIER="$2"; shift 2
cd /repo || exit 2
if [ -n "$(git status --porcelain)" ]; then echo "/repo is dirty, refusing"; exit 2; fi
git apply "$PATCH" || { echo "patch does not apply"; exit 2; }
cd /verif
for p in "$@"; do
  ./check "$p" "$TIER" > "work/mut_$p.log" 2>&1
  rc=$?
  echo "$p exit=$rc $(grep -c '^VIOLATION' work/mut_$p.log) violations $(grep -c '^KNOWN-FINDING' work/mut_$p.log) known $(grep '^TOOL-ERROR' work/mut_$p.log | head -1)"
done
git -C /repo checkout -- . && git -C /repo status --porcelain | head -3
