"""Adversary checks (C14): TLC enumerates the tamper catalogue (Adversary!EmitSpec), the harness applies every case
to honest data and runs the victim on the real code, TLC validates the records (Adversary!CheckSpec)."""
import json, os, re
from common import *
import fncheck


def run_attack_resilient(cpath, rpath, wd):
    """Runs `aqua-harness attack`; if the process dies (abort, OOM, stack overflow, timeout) on a case, that case is
    recorded as died and the run resumes after it. A death of the code under test is data, not a tool error."""
    import subprocess
    journal = os.path.join(wd, "journal.txt")
    parts = []
    killed = []
    skip = 0
    total = sum(1 for _ in open(cpath))
    for attempt in range(200):
        part = os.path.join(wd, f"records_part{attempt}.ndjson")
        cmd = f"ulimit -v 6000000; exec {HARNESS} attack --in {cpath} --out {part} --journal {journal} --skip {skip}"
        try:
            p = subprocess.run(["bash", "-c", cmd], stdout=subprocess.PIPE, stderr=subprocess.PIPE, text=True, timeout=1800)
            rc = p.returncode
        except subprocess.TimeoutExpired:
            rc = -9
        parts.append(part)
        if rc == 0:
            break
        # which case was running
        try:
            jl = open(journal).read().split("\n")
            n = int(jl[0])
            case = json.loads(jl[1])
        except Exception:
            raise ToolError("harness attack died without a journal entry")
        killed.append(n)
        with open(part, "a") as f:
            f.write(json.dumps({"k": "atk", "n": n, "case": case, "applicable": True,
                                "out": {"code": -1, "died": f"process died (exit {rc})", "eqprev": False, "data": {"trace": [], "lcid": 0, "sigs": []},
                                        "decodes": False, "msg": "", "nnext": 0}}) + "\n")
        skip = n
        if skip >= total:
            break
    with open(rpath, "w") as out:
        for part in parts:
            if os.path.exists(part):
                # drop a possibly truncated last line of a part that died
                for l in open(part, errors='replace'):
                    if l.endswith("\n"):
                        try:
                            json.loads(l)
                            out.write(l)
                        except ValueError:
                            pass
    return {"cases": total}, killed


def run(pid, tier, wd, invs=("CheckC14", "CheckDecision"), family="attack"):
    env = {"TIER": tier, "PROP": pid, "FAMILY": family, "TRACE": os.path.join(wd, "none.ndjson")}
    open(env["TRACE"], "w").close()
    e = run_tlc("Adversary.tla", fncheck._cfg(wd, "emit_adv.cfg", "EmitSpec", ["EmitCase"]), wd, env=env, workers=4, timeout=1800, heap="8g")
    cases = [m.group(1).replace('\\"', '"') for m in re.finditer(r'<<"CASE", "(.*)">>', e["out"])]
    if not cases or e["errors"]:
        log(tlc_tail(e))
        raise ToolError("enumeration of attack cases failed")
    cpath = os.path.join(wd, "cases_attack.ndjson")
    with open(cpath, "w") as f:
        for c in cases:
            f.write(c + "\n")
    rpath = os.path.join(wd, "records_attack.ndjson")
    st, killed = run_attack_resilient(cpath, rpath, wd)
    env["TRACE"] = rpath
    v = run_tlc("Adversary.tla", fncheck._cfg(wd, "check_adv.cfg", "CheckSpec", list(invs), "AllExecuted"), wd, env=env, workers=1, timeout=3000, heap="8g")
    if v["rejected"] or not v["completed"] or v["errors"]:
        log(tlc_tail(v))
        raise ToolError("validation of attack records did not complete (tool error, not a verdict)")
    agree = len(re.findall(r'<<"DECISION", "agree"', v["out"]))
    differ = re.findall(r'<<"DECISION", "differ", (\d+), (-?\d+)>>', v["out"])
    applicable = 0
    accepted = 0
    died = []
    for l in open(rpath):
        r = json.loads(l)
        if r.get("applicable"):
            applicable += 1
            if r["out"]["died"]:
                died.append(r["n"])
            elif r["out"]["code"] in (0, 30000) or 10000 <= r["out"]["code"] < 20000:
                accepted += 1
    return {"enumerated_states": e["states"], "cases": len(cases), "applicable": applicable, "victim_returned_new_data": accepted,
            "validated_states": v["states"], "violations": v["violations"], "records": rpath,
            "decision_agree": agree, "decision_differ": [(int(a), int(b)) for a, b in differ][:20], "decision_differ_count": len(differ),
            "died": died, "killed": killed}
