"""Adversary checks (C14): TLC enumerates the tamper catalogue (Adversary!EmitSpec), the harness applies every case
to honest data and runs the victim on the real code, TLC validates the records (Adversary!CheckSpec)."""
import json, os, re
from common import *
import fncheck


def run(pid, tier, wd, invs=("CheckC14", "CheckDecision")):
    env = {"TIER": tier, "PROP": pid, "TRACE": os.path.join(wd, "none.ndjson")}
    open(env["TRACE"], "w").close()
    e = run_tlc("Adversary.tla", fncheck._cfg(wd, "emit_adv.cfg", "EmitSpec", ["EmitCase"]), wd, env=env, workers=4, timeout=1800, heap="8g")
    cases = [m.group(1).replace('\\"', '"') for m in re.finditer(r'<<"CASE", "(.*)">>', e["out"])]
    if not cases or e["errors"]:
        log(tlc_tail(e))
        raise ToolError("enumeration of attack cases failed")
    cpath = os.path.join(wd, "cases_attack.ndjson")
    with open(cpath, "w") as f:
        for c in cases:
            f.write(c + "\n")
    rpath = os.path.join(wd, "records_attack.ndjson")
    st = run_harness(["attack", "--in", cpath, "--out", rpath])
    env["TRACE"] = rpath
    v = run_tlc("Adversary.tla", fncheck._cfg(wd, "check_adv.cfg", "CheckSpec", list(invs), "AllExecuted"), wd, env=env, workers=1, timeout=3000, heap="8g")
    if v["rejected"] or not v["completed"] or v["errors"]:
        log(tlc_tail(v))
        raise ToolError("validation of attack records did not complete (tool error, not a verdict)")
    agree = len(re.findall(r'<<"DECISION", "agree"', v["out"]))
    differ = re.findall(r'<<"DECISION", "differ", (\d+), (-?\d+)>>', v["out"])
    applicable = 0
    accepted = 0
    died = []
    for l in open(rpath):
        r = json.loads(l)
        if r.get("applicable"):
            applicable += 1
            if r["out"]["died"]:
                died.append(r["n"])
            elif r["out"]["code"] in (0, 30000) or 10000 <= r["out"]["code"] < 20000:
                accepted += 1
    return {"enumerated_states": e["states"], "cases": len(cases), "applicable": applicable, "victim_returned_new_data": accepted,
            "validated_states": v["states"], "violations": v["violations"], "records": rpath,
            "decision_agree": agree, "decision_differ": [(int(a), int(b)) for a, b in differ][:20], "decision_differ_count": len(differ),
            "died": died}
