"""The net pipeline shared by the schedule/history properties (C02-C20, C27 probe part):
   histories (TLC-emitted schedules and seeded random ones) -> harness `net` on the real code ->
   NDJSON trace -> TLC TraceNet with the property's invariant."""
import json, os, random, time
from concurrent.futures import ThreadPoolExecutor
from common import *

PROFILES = ["core", "stream", "full", "seqfrag"]


def random_histories(n, rng, profiles=None, observe=True, start_hid=1, joins=None, npeers=(3, 5), depth=(3, 5), extra=None):
    out = []
    for i in range(n):
        prof = (profiles or PROFILES)[i % len(profiles or PROFILES)]
        h = {"hid": start_hid + i, "seed": rng.randrange(1, 2**31),
             "gen": {"profile": prof, "depth": rng.randint(*depth), "budget": rng.randint(12, 30),
                     "npeers": rng.randint(*npeers), "joins": (rng.random() < 0.5) if joins is None else joins},
             "max_steps": rng.randint(25, 60), "dup": rng.choice([0.1, 0.25, 0.4]), "observe": observe,
             "source": "random"}
        if extra:
            h.update(extra)
        out.append(h)
    return out


def write_histories(path, hs):
    with open(path, "w") as f:
        for h in hs:
            f.write(json.dumps(h) + "\n")


def make_cfg(wd, invs, name="TraceProp.cfg"):
    path = os.path.join(wd, name)
    with open(path, "w") as f:
        f.write("SPECIFICATION Spec\nCHECK_DEADLOCK FALSE\nPOSTCONDITION TraceAccepted\n")
        for i in invs:
            f.write(f"INVARIANT {i}\n")
    return path


def validate_chunk(wd, idx, hs, invs, probes=True, module="TraceNet.tla"):
    hp = os.path.join(wd, f"hist{idx}.ndjson")
    tp = os.path.join(wd, f"trace{idx}.ndjson")
    write_histories(hp, hs)
    stats = run_harness(["net", "--in", hp, "--out", tp] + ([] if probes else ["--probes", "0"]))
    cfg = make_cfg(wd, invs, f"TraceProp{idx}.cfg")
    res = run_tlc(module, cfg, wd, env={"TRACE": tp}, workers=1, timeout=3000, heap="6g")
    res["trace"] = tp
    res["stats"] = stats
    if res["rejected"] or not res["completed"] or res["errors"]:
        log(tlc_tail(res))
        raise ToolError(f"trace validation did not complete for chunk {idx} (tool error, not a verdict)")
    return res


def run_chunks(wd, histories, invs, chunk=400, par=4, probes=True, module="TraceNet.tla"):
    build_harness()     # never validate with a binary older than the tree (cheap when nothing changed)
    chunks = [histories[i:i + chunk] for i in range(0, len(histories), chunk)]
    results = []
    with ThreadPoolExecutor(max_workers=par) as ex:
        futs = [ex.submit(validate_chunk, wd, i, c, invs, probes, module) for i, c in enumerate(chunks)]
        for f in futs:
            results.append(f.result())
    return results


def sample_histories(trace_path, k=2):
    """A few actual histories of the run, compactly, for the evidence file."""
    out, cur = [], None
    for l in open(trace_path):
        r = json.loads(l)
        if r["k"] == "reset":
            if cur and len(out) < k:
                out.append(cur)
            if len(out) >= k:
                break
            cur = {"hid": r["hid"], "script": r["text"][:400], "source": r["source"], "steps": []}
        elif r["k"] == "run" and cur is not None and len(cur["steps"]) < 12:
            cur["steps"].append(f"{r['kind']} {r['peer']} cur={r['cur']['from']}{r['cur']['ver']} res={r['res_ids']} -> code {r['out']['code']} next={r['out']['next']} reqs={[q['id'] for q in r['out']['reqs']]}")
    return out
