"""Known findings: /verif/known_findings.json is committed and never written at run time.
An entry {property, status: "known"|"fixed", tag | matcher, description} suppresses a violation only when
status is "known" and either the specification itself classified the violation with the entry's tag
(the classification is part of the TLA+ invariant, e.g. TraceNet!InvC17) or the named matcher recognises
the specific failing record."""

def _non_utf8_after_rkyv(rec, recs):
    """C01 known finding: a corrupted relative pointer inside the rkyv-encoded inner data makes a shared `str`
    (a CID / argument hash) alias bytes that were validated under another length; the resulting non-UTF-8 string
    panics in serde_json at its first serialization (CID store verification, pretty-printing)."""
    if rec.get("case", {}).get("family") != "bytes":
        return False
    o = rec.get("obs", {})
    msgs = [o.get("exec_died", ""), o.get("pretty_msg", "")]
    bad = [m for m in msgs if m]
    if not bad:
        return False
    return all("is not a char boundary" in m or "is out of bounds of" in m for m in bad)


def _deep_nesting_stack_overflow(rec, recs):
    """C01 known finding: a balanced script nested ~100 000 levels deep (1.3 MB of text) overflows the native stack
    (recursive validator / drop / execution over the boxed AST) and aborts the process."""
    c = rec.get("case", {})
    o = rec.get("obs", {})
    return c.get("family") == "text" and c.get("op") == "verydeep" and "process died" in o.get("exec_died", "")


MATCHERS = {"non_utf8_after_rkyv": _non_utf8_after_rkyv, "deep_nesting_stack_overflow": _deep_nesting_stack_overflow}


def match(kf, pid, tag, rec, recs):
    for f in kf.get("findings", []):
        if f.get("property") != pid or f.get("status") != "known":
            continue
        if f.get("tag") and tag and f["tag"] == tag:
            return f.get("description", tag)
        m = MATCHERS.get(f.get("matcher", ""))
        if m and rec is not None and m(rec, recs):
            return f.get("description", f.get("matcher"))
    return None
