"""Known findings: /verif/known_findings.json is committed and never written at run time.
An entry {property, status: "known"|"fixed", matcher, description, ...} suppresses a violation only when
status is "known" and the named matcher recognises the specific failing input/record."""


def _junk_failed_unsigned(rec, recs):
    # C03 finding fixed in /repo: kept for documentation, never suppresses
    return False


MATCHERS = {"junk_failed_unsigned": _junk_failed_unsigned}


def match(kf, pid, rec, recs):
    for f in kf.get("findings", []):
        if f.get("property") != pid or f.get("status") != "known":
            continue
        m = MATCHERS.get(f.get("matcher", ""))
        if m and rec is not None and m(rec, recs):
            return f.get("description", f.get("matcher"))
    return None
