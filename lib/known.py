"""Known findings: /verif/known_findings.json is committed and never written at run time.
An entry {property, status: "known"|"fixed", tag | matcher, description} suppresses a violation only when
status is "known" and either the specification itself classified the violation with the entry's tag
(the classification is part of the TLA+ invariant, e.g. TraceNet!InvC17) or the named matcher recognises
the specific failing record."""

MATCHERS = {}


def match(kf, pid, tag, rec, recs):
    for f in kf.get("findings", []):
        if f.get("property") != pid or f.get("status") != "known":
            continue
        if f.get("tag") and tag and f["tag"] == tag:
            return f.get("description", tag)
        m = MATCHERS.get(f.get("matcher", ""))
        if m and rec is not None and m(rec, recs):
            return f.get("description", f.get("matcher"))
    return None
