#!/usr/bin/env python3
"""Regenerates /verif/MANIFEST.json from the table below (single source of truth for the check registry)."""
import json, os
ROOT = os.path.dirname(os.path.dirname(os.path.abspath(__file__)))

NET_NOTE = ("Trusted base: TLC; the harness's simulator and projector (CIDs resolved to contents, signature facts recomputed); "
            "the deterministic service algebra implemented twice (Rust / AirValues.tla). Bounded: seeded random scripts "
            "(3-5 peers, <= ~30 instructions) and schedules; TLC-emitted schedules for the catalogue scripts.")

NOTES = {}
CHECKS = {
 "C02": ("model_checking", "TLC checks Props!C02 as an invariant of the trace specification TraceNet on every step recorded from the real execute_air in simulated multi-peer histories (prev data returned byte-for-byte on prep/uncatchable failures, no next peers/requests; new decodable data holding every applied host result otherwise).", "TLA+ trace validation (TraceNet) of harness-recorded histories; invariant Props!C02"),
 "C03": ("model_checking", "TLC checks Props!C03 on every produced datum of every recorded run: decodes, supported version, every store entry hashes to its key (recomputed independently with sha2/blake3), no dangling reference, every attributed peer's signature verifies for this particle, a fresh peer accepts it as current data.", "TLA+ trace validation; invariant Props!C03 incl. fresh-peer acceptance probe"),
 "C04": ("model_checking", "TLC checks on every recorded run and observer merge of honest histories that the result code is none of the data-consistency error codes.", "TLA+ trace validation; invariant Props!C04"),
 "C05": ("model_checking", "TLC checks the bag invariant Props!C05 after every step: every request ever handed to a peer's host is represented exactly once in that peer's stored trace, as the pending request or as its recorded result.", "TLA+ trace validation with history variables issued/pending; invariant Props!C05"),
 "C06": ("model_checking", "TLC checks id freshness against the history of issued ids, that the content recorded at each own call equals AirValues!Service of that call's (service, function, arguments), and that results under unknown ids give a non-zero code and appear nowhere.", "TLA+ trace validation; invariants Props!C06a/b/c"),
 "C07": ("model_checking", "After every successful recorded run the harness re-runs the four redelivery variants on the real code; TLC checks Props!C07 (same trace digest, no requests, no next peers).", "TLA+ trace validation; idempotence probes; invariant Props!C07"),
 "C08": ("model_checking", "At the end of recorded histories the harness merges sets of <= 4 data at a fresh observer in every order and two groupings; TLC compares the distinct outcomes pairwise with Props!C08 (same knowledge; equal modulo senders without streams).", "TLA+ trace validation of observer-merge events; invariant Props!C08"),
 "C09": ("model_checking", "TLC checks bag inclusion of the results (by content id) of previous and current data in the output of every successful recorded run.", "TLA+ trace validation; invariant Props!C09"),
 "C10": ("model_checking", "TLC evaluates the independent recursive-descent reader AirData!WF on every trace the real code produced (runs and observer merges).", "TLA+ trace validation; invariant AirData!WF"),
 "C01": ("fault_enumeration", "TLC enumerates (a) structural tamper operations on everything no signature covers (par sizes, fold lore positions/lengths, generations, state kinds, store entries referenced from the trace, raw values of the attacker's re-signed results, truncation/duplication; pairs in the thorough tier) x positions x boundary values x victim states over data of four honest base histories, (b) token-level mutations of scripts through parse/beautify/execute, (c) byte-level mutations of honest data through execute and pretty-printing, (d) every script of the generated AST family executed to quiescence. Each input runs on the real code under catch_unwind in a child process with an address-space ceiling and a journal; TLC validates that no record reports a panic or a dead process. Six crashes found this way are repaired by fix: commits, two are recorded as known findings.", "TLA+ enumeration of fault cases (Adversary.tla, FnSpec.tla) + fault injection on the real code + trace validation"),
 "C11": ("model_checking", "TLC evaluates on every recorded run (TraceConf!InvC11): the canon results in the produced data equal, element by element and in order, those the model interpreter computes from its own streams for the same inputs (a canon fixed now holds exactly what the designated peer's stream holds; a canon carried over is unchanged), and - model-free - a canon created in the run lists its values in the generation order of that peer's output (Props!C11order). Divergent canon results of one instance are caught by C04/C09 on every merge.", "TLA+ trace validation with the model interpreter's streams as oracle (AirInterp stage 2)"),
 "C12": ("model_checking", "TLC checks on every pair of consecutive data of a peer (Props!C12, model-free, by content of the stream values): relative generation order preserved, values new to the peer after the old ones, received before produced; and against the model: every pair of stream values is ordered as in the model's output (TraceConf!InvC12).", "TLA+ trace validation; model-free order relation + model oracle"),
 "C13": ("model_checking", "TLC compares on every recorded run the bag of canon contents (local canons are the observation points of the streams), the bag of requests issued (fold bodies call tagging services per visited value) and the number of stream-append states with the model interpreter's outcome for the same inputs (TraceConf!InvC13). The design runs check the model's streams on every schedule of the stream catalogue.", "TLA+ trace validation with the model's stream contents as oracle"),
 "C14": ("fault_enumeration", "TLC enumerates the whole catalogue of tamper operations (value swap in place / with consistent re-hash, tetraplet and argument-hash change, relocation and replay of a result at another call, state-kind change, result removal, signature drop/swap, particle-id change; pairs in the thorough tier) x target positions x victim states; each is applied by the harness to honest data (attacker re-signs only his own results) and run on the real victim; TLC checks that every result attributed to an honest peer in the victim's new data is one that peer really produced (C14a) and that the new data re-reads without parameter mismatch under the model interpreter (C14b). The ideal-signature model's accept/reject decision is compared with the implementation's on every case (reported as conformance).", "TLA+ enumeration of tamper cases (Adversary.tla) + fault injection on the real code + trace validation"),
 "C15": ("fault_enumeration", "Same enumeration, invariant Adversary!C15a/b: per-peer content-id bags of previous and current data that are not nested => rejected in preparation with the previous data returned; otherwise the new data holds the larger bag. Honest part: TraceNet!InvC15 checks nestedness and non-rejection on every run of seeded honest histories.", "TLA+ enumeration of fork/tamper cases + trace validation (Adversary.tla, TraceNet!InvC15)"),
 "C16": ("model_checking", "Every request any host receives in recorded histories of fragment scripts is checked by TLC (TraceNet!InvC16) for bag inclusion in the calls of the independent sequential evaluator SeqSem (same peer, service, function, argument values).", "TLA+ trace validation against the sequential reference evaluator SeqSem.tla"),
 "C17": ("model_checking", "The tetraplets of every request are compared by TLC (TraceNet!InvC17) with the provenance SeqSem predicts for the argument expressions (producer triplet, exact lens); one recorded deviation (functor .length) is classified inside the invariant and listed in known_findings.json.", "TLA+ trace validation against SeqSem provenance"),
 "C16": ("model_checking", "Every request any host receives in recorded histories of fragment scripts is checked by TLC (TraceNet!InvC16) for bag inclusion in the calls of the independent sequential evaluator SeqSem (same peer, service, function, argument values).", "TLA+ trace validation against the sequential reference evaluator SeqSem.tla"),
 "C17": ("model_checking", "The tetraplets of every request are compared by TLC (TraceNet!InvC17) with the provenance SeqSem predicts for the argument expressions (producer triplet, exact lens); one recorded deviation (functor .length) is classified inside the invariant and listed in known_findings.json.", "TLA+ trace validation against SeqSem provenance"),
 "C18": ("model_checking", "TLC enumerates failure kind (13 catchable: service error, fail, match/mismatch, lens errors, fold over a non-array, non-string triplet part, length of a non-array, uninitialised after new, ...; 4 quiet: success, never, waiting on a join, null; 1 uncatchable) x context (plain, after a call, par branch, par with a failing sibling, fold body, new scope, seq continuation); every pair runs on the real code uncaught and under an xor whose catch branch reports :error:; TLC validates FnSpec!XorExpect: catch runs iff the left branch fails catchably, the caught code and message equal the uncaught run's ret_code and error_message, execution continues after the xor, quiet and uncatchable cases never reach the catch branch. In addition the error descriptors (%last_error% / :error:, re-arming by xor and par, fail with literals / %last_error% / :error:) are part of the model interpreter (AirInterp stage 3): TLC enumerates the 700-script error family (first failure x handler shape with tolerated or nested failures x second failure x report / re-raise / uncaught; ScriptGen level 5), MCNet explores it, every behaviour and seeded random full-profile histories run on the real code and TraceConf!InvC18 compares run code and the error codes handed to services with the model.", "TLA+ enumeration + trace validation (FnSpec!XorCases / XorExpect; ScriptGen!ErrorFamily, TraceConf!InvC18)"),
 "C19": ("model_checking", "TLC checks on every recorded run: next peers without self/duplicates, new sent-marks imply forwarding, new canon results attributed to the running peer; at quiescence of join-free scripts the observer's merge holds no sent-mark.", "TLA+ trace validation; invariants Props!C19b/cWeak/aCanon/d"),
 "C20": ("model_checking", "Every recorded run is executed twice on the real code; TLC checks equality of code, message, canonical data digest, requests, next-peer set and flags.", "TLA+ trace validation; re-execution probe; invariant Props!C20"),
 "C21": ("model_checking", "TLC enumerates the complete grid of interpreter versions around the minimum (major, minor, patch, pre-release, build metadata) x inner-data kind x previous-data kind (576 cases, FnSpec!VersionCases); the harness builds each envelope and runs it on the real code; TLC validates every record against FnSpec!VersionExpect (semver precedence against 0.61.0) and that the executed cases are exactly the enumerated space.", "TLA+ case-space enumeration + trace validation of executed cases (FnSpec.tla)"),
 "C22": ("model_checking", "TLC enumerates all 1000 configurations of the three limits (0, size-1, size, size+1, max) x hard/soft x presence of current data and call result; each runs on the real code next to an unlimited run; TLC validates code, flags and equality with the unlimited outcome (FnSpec!LimitsExpect).", "TLA+ case-space enumeration + trace validation (FnSpec.tla)"),
 "C23": ("model_checking", "TLC enumerates a generated family of script ASTs incl. ill-scoped ones (2.5k quick, >100k thorough); each is rendered and parsed by the real parser; TLC checks Ok => WellScoped (FnSpec!WellScoped, the weak textual reading) and totality of the call.", "TLA+ enumeration of ASTs + trace validation against FnSpec!WellScoped"),
 "C24": ("model_checking", "TLC enumerates JSON values (depth <= 2) x lens paths (length <= 2 quick, <= 3 thorough, incl. accessors taken from scalars and .length); each is applied by the real interpreter inside an xor; TLC compares branch and value with plain JSON navigation AirValues!Nav.", "TLA+ enumeration + trace validation against AirValues!Nav"),
 "C28": ("model_checking", "For the same AST family the beautifier's output is split into (indentation depth, text) lines by an independent reader and compared by TLC with FnSpec!Shape (one line per instruction in order, depth = nesting with sequences flattened, keywords and operands).", "TLA+ enumeration + trace validation against FnSpec!Shape"),
 "C25": ("model_checking", "TLC enumerates (a) 8 JSON values x 6 construction routes (re-parsed, pretty-printed and re-parsed, object keys inserted forwards / backwards, via serde_json::Value) and (b) the verification decision table 8 values x 14 id mutations (exact blake3 / sha2, other hash codes, truncated digests, single bit flips, digest of another value, raw / dag-cbor codec, garbage, swapped hash code) for both the typed and the raw verifier; the harness builds the ids itself (own multibase/CIDv1 encoder, sha2 and blake3 crates) and calls the real functions; TLC validates FnSpec!CidExpect. The hash functions themselves are not modelled.", "TLA+ enumeration of the decision table + trace validation (FnSpec!CidCases)"),
 "C27": ("model_checking", "After every recorded run the produced data, request map and result map are re-encoded and decoded by the real codecs and TLC checks the round-trip facts (Props!C27); plus the table FnSpec!CodecCases enumerated by TLC: payload x codec tag (right, json, cbor, absent, truncated, empty) x body (intact, corrupt) and envelope outer x inner corruption, validated against FnSpec!CodecExpect (decodes exactly iff right tag and intact body; versions readable iff the outer encoding is intact).", "TLA+ trace validation; recode probe; invariant Props!C27"),
}

NOT_YET = {
 "C26": "what the property is about (exact i64/u64/f64 printing and parsing, string escaping, number comparison) lies outside TLC's value domain (32-bit integers, no floats, no string primitives); an explicit TLA+ model could only enumerate tree shapes over named atoms and would reduce to comparing two Rust JSON implementations, so the technique does not decide it (DESIGN.md section 7)",
}

def main():
    checks = []
    for pid, (level, text, tech) in sorted(CHECKS.items()):
        checks.append({
            "property_id": pid,
            "quick_cmd": f"./check {pid} quick",
            "thorough_cmd": f"./check {pid} thorough",
            "evidence_file": f"/verif/evidence/{pid}.json",
            "replay_cmd_template": "./check replay {path}",
            "engine": "tlc+harness",
            "level_claimed": {"category": level, "text": text, "design_ref": f"DESIGN.md section 6, {pid}"},
            "level_note": NOTES.get(pid, NET_NOTE),
            "technique": tech,
        })
    m = {
        "version": 1,
        "setup_cmd": "./check setup",
        "hooks": {
            "guard": "--cfg aquavm_verif",
            "enable": "the harness (harness/.cargo/config.toml) builds /repo's crates with RUSTFLAGS --cfg aquavm_verif; no hook is currently needed, every observation uses public API",
            "baseline_off_cmd": "cd /repo && cargo nextest run --workspace --no-fail-fast --test-threads 8 --offline || cargo test --workspace --no-fail-fast --offline",
            "source_commits": [],
            "add_only": True,
        },
        "engines": [
            {"name": "tlc+harness", "path": "/verif/check", "serves_properties": sorted(CHECKS),
             "kind_free_text": "explicit TLA+ specification (spec/*.tla) checked with TLC; Rust conformance harness (harness/) replaying schedules on the real air::execute_air and recording NDJSON traces validated by TLC against the trace specification"},
        ],
        "checks": checks,
        "not_applicable": [{"property_id": k, "reason": v} for k, v in sorted(NOT_YET.items()) if k not in CHECKS],
        "notes": "See DESIGN.md. known_findings.json lists repaired and recorded defects.",
    }
    with open(os.path.join(ROOT, "MANIFEST.json"), "w") as f:
        json.dump(m, f, indent=1)
        f.write("\n")

main()
