#!/usr/bin/env python3
"""show.py <trace.ndjson> <hid> [step] -- print a history (or one record) of a recorded trace"""
import json, sys
def short_state(s):
    k = s['k']
    if k == 'par': return f"par({s['lsz']},{s['rsz']})"
    if k == 'sent': return f"sent({s['by']},{s['id']})"
    if k == 'exec': return f"exec[{s['vt']}]({s['p']}.{s['s']}.{s['f']} g={s['g']} c={s['c'][-4:]})"
    if k == 'failed': return f"failed({s['p']}.{s['s']}.{s['f']})"
    if k == 'ap': return f"ap({s['gs']})"
    if k == 'fold': return "fold(" + ";".join(f"vp{l['vp']}:{l['d']}" for l in s['lore']) + ")"
    if k == 'csent': return f"csent({s['by']})"
    if k == 'cexec': return f"cexec({s['p']} n={len(s['vals'])} c={s['c'][-4:]})"
    return k
def main():
    f, hid = sys.argv[1], int(sys.argv[2])
    step = int(sys.argv[3]) if len(sys.argv) > 3 else None
    for l in open(f):
        r = json.loads(l)
        if r.get('hid') != hid: continue
        if r['k'] == 'reset':
            print("SCRIPT", r['text']); continue
        if step is not None and r['step'] != step: continue
        if r['k'] == 'run':
            o = r['out']
            print(f"#{r['step']} {r['kind']} {r['peer']} cur={r['cur']['from']}{r['cur']['ver']} res={[x['id'] for x in r['res']]} -> code={o['code']} next={o['next']} reqs={[(q['id'],q['srv'],q['fn']) for q in o['reqs']]} newver={o['newver']} died={o['died']!r}")
            if o['msg']: print("    msg:", o['msg'][:200])
            print("    trace:", " ".join(short_state(s) for s in o['data']['trace']))
            if step is not None:
                print(json.dumps(r['probes'])[:1500])
                print("sig", o['sig'], 'store_ok', o['store_ok'], 'refs_ok', o['refs_ok'], o['dangling'])
        elif r['k'] == 'obs':
            print(f"#{r['step']} OBS set={r['set']} quiescent={r['quiescent']} finals={r['finals']}")
            for x in r['results']:
                print("    ", x['codes'], x['cnt'], " ".join(short_state(s) for s in x['data']['trace']))
main()
