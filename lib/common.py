"""Shared plumbing of the ./check dispatcher: building the harness, running TLC, parsing its output,
known findings, replay files, evidence."""
import json, os, re, shutil, subprocess, sys, time

ROOT = os.path.dirname(os.path.dirname(os.path.abspath(__file__)))
SPEC = os.path.join(ROOT, "spec")
HARNESS_DIR = os.path.join(ROOT, "harness")
HARNESS = os.path.join(HARNESS_DIR, "target", "release", "aqua-harness")
WORK = os.path.join(ROOT, "work")
EVID = os.path.join(ROOT, "evidence")
KNOWN = os.path.join(ROOT, "known_findings.json")
JAVA_OPTS = "-Xss1g -Dtlc2.tool.queue.IStateQueue=StateDeque"


class ToolError(Exception):
    pass


def log(*a):
    print(*a, flush=True)


def seed():
    try:
        return int(os.environ.get("VERIF_SEED", "1"))
    except ValueError:
        return 1


def workdir(name):
    d = os.path.join(WORK, name)
    shutil.rmtree(d, ignore_errors=True)
    os.makedirs(d, exist_ok=True)
    return d


def build_harness():
    """Rebuild the harness against /repo's current working tree (exit 2 on failure)."""
    t0 = time.time()
    lock_src = "/repo/Cargo.lock"
    lock_dst = os.path.join(HARNESS_DIR, "Cargo.lock")
    try:
        if open(lock_src, "rb").read() != open(lock_dst, "rb").read():
            shutil.copy(lock_src, lock_dst)
    except OSError:
        pass
    env = dict(os.environ, CARGO_NET_OFFLINE="true")
    p = subprocess.run(["cargo", "build", "--release", "--offline"], cwd=HARNESS_DIR, env=env,
                       stdout=subprocess.PIPE, stderr=subprocess.STDOUT, text=True)
    if p.returncode != 0:
        sys.stdout.write(p.stdout[-6000:])
        raise ToolError("harness build failed")
    log(f"[build] harness built in {time.time()-t0:.1f}s")


def run_harness(args, cwd=None, timeout=3600):
    p = subprocess.run([HARNESS] + args, cwd=cwd, stdout=subprocess.PIPE, stderr=subprocess.PIPE, text=True, timeout=timeout)
    if p.returncode != 0:
        sys.stdout.write(p.stdout[-3000:])
        sys.stdout.write(p.stderr[-3000:])
        raise ToolError(f"harness {args[0]} failed with exit {p.returncode}")
    last = [l for l in p.stdout.strip().split("\n") if l.strip()]
    try:
        return json.loads(last[-1]) if last else {}
    except ValueError:
        return {"raw": p.stdout[-500:]}


TLC_NOISE = re.compile(r"^(Parsing|Semantic|Linting|Picked up|Starting|Computing|Finished computing|Progress|Checkpointing)")


def run_tlc(module, cfg, wd, env=None, workers=1, timeout=1800, extra=None, simulate=None, heap=None):
    """Run TLC; returns dict(out, states, distinct, ok, violations=[(id, hid, step)], rejected)"""
    e = dict(os.environ)
    e["JAVA_TOOL_OPTIONS"] = JAVA_OPTS + ((" -Xmx" + heap) if heap else "")
    if env:
        e.update({k: str(v) for k, v in env.items()})
    meta = os.path.join(wd, "tlc-" + os.path.basename(cfg).replace(".cfg", ""))
    shutil.rmtree(meta, ignore_errors=True)
    cmd = ["timeout", str(timeout), "tlc", "-workers", str(workers), "-noGenerateSpecTE", "-metadir", meta, "-cleanup"]
    if simulate:
        cmd += ["-simulate", simulate]
    if extra:
        cmd += extra
    cmd += ["-config", cfg, module]
    t0 = time.time()
    p = subprocess.run(cmd, cwd=SPEC, env=e, stdout=subprocess.PIPE, stderr=subprocess.STDOUT, text=True)
    out = p.stdout
    shutil.rmtree(meta, ignore_errors=True)
    res = {"out": out, "rc": p.returncode, "wall": time.time() - t0}
    m = re.search(r"(\d+) states generated, (\d+) distinct states found", out)
    res["states"] = int(m.group(2)) if m else 0
    res["transitions"] = int(m.group(1)) if m else 0
    res["violations"] = [(a, int(b), int(c), d) for a, b, c, d in re.findall(r'<<"VIOLATION", "(C\d+)", (\d+), (\d+)(?:, "([^"]*)")?>>', out)]
    res["aux"] = [(int(h), i == "TRUE", s == "TRUE", int(n)) for h, i, s, n in re.findall(r'<<"AUX", (\d+), (TRUE|FALSE), (TRUE|FALSE), (\d+)>>', out)]
    res["rejected"] = "TRACE-REJECTED" in out
    res["completed"] = ("Model checking completed" in out) or ("Finished in" in out and simulate is not None)
    res["errors"] = [l for l in out.split("\n") if l.startswith("Error:")]
    if p.returncode == 124:
        raise ToolError(f"TLC timed out on {module}/{cfg}")
    return res


def tlc_tail(res, n=40):
    lines = [l for l in res["out"].split("\n") if l.strip() and not TLC_NOISE.match(l)]
    return "\n".join(l[:300] for l in lines[-n:])


def load_known():
    try:
        return json.load(open(KNOWN))
    except OSError:
        return {"findings": []}


def read_history(trace_path, hid):
    recs = []
    for l in open(trace_path):
        if f'"hid":{hid},' in l or f'"hid":{hid}}}' in l:
            r = json.loads(l)
            if r.get("hid") == hid:
                recs.append(r)
    return recs


def history_to_replay(recs, upto_step=None):
    """A replay file is an explicit-schedule history in the harness's input format."""
    reset = [r for r in recs if r["k"] == "reset"][0]
    steps = []
    for r in recs:
        if r["k"] != "run":
            continue
        if upto_step is not None and r["step"] > upto_step:
            break
        kind = r["kind"]
        if kind == "start":
            steps.append({"a": "start"})
        elif kind in ("deliver", "both"):
            steps.append({"a": "deliver", "from": r["cur"]["from"], "ver": r["cur"]["ver"], "to": r["peer"], "res": r["res_ids"]})
        elif kind == "return":
            steps.append({"a": "return", "peer": r["peer"], "ids": r["res_ids"]})
        elif kind == "bogus":
            steps.append({"a": "bogus", "peer": r["peer"], "id": r["bogus_ids"][0] if r["bogus_ids"] else 999, "ids": r["res_ids"]})
    return {"hid": reset["hid"], "script": reset["script"], "init": reset["init"], "peers": reset["peers"],
            "particle": reset["particle"], "joinfree": reset.get("joinfree", False), "steps": steps, "observe": any(r["k"] == "obs" for r in recs),
            "seed": int(reset.get("seed", "1")), "text": reset.get("text", "")}


def write_evidence(pid, tier, level, coverage, wall, violations, assumptions):
    os.makedirs(EVID, exist_ok=True)
    ev = {"property_id": pid, "tier": tier, "seed": seed(), "level": level, "coverage": coverage,
          "assumptions": assumptions, "wall_s": round(wall, 2), "violations": violations}
    with open(os.path.join(EVID, f"{pid}.json"), "w") as f:
        json.dump(ev, f, indent=1)
        f.write("\n")
