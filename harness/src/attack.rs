//! Adversary layer (C14, C15, C01): structural tampering of honest data by an attacker `M` who can
//! re-sign only his own results. Cases are enumerated by TLC (spec/Adversary.tla); every case is applied
//! to data from an honest base history and delivered to an honest victim; the outcome is recorded.

use air_interpreter_data::{InterpreterData, InterpreterDataEnvelope};
use air_interpreter_interface::CallResults;
use serde_json::{json, Value as J};
use std::io::{BufRead, BufWriter, Write};
use std::rc::Rc;

use crate::ast::{self, Instr};
use crate::net::{self, Limits, Net};
use crate::peers::Peers;
use crate::proj;

pub fn base_script(name: &str) -> (Instr, Vec<String>) {
    use ast::*;
    match name {
        // A -> M -> B -> A : M relays A's result and adds its own
        "SM1" => (
            seqs(vec![
                call(peer("A"), "t", "f1", vec![], "x"),
                call(peer("M"), "t", "f2", vec![var("x")], "y"),
                call(peer("B"), "t", "f3", vec![var("x"), var("y")], "z"),
                call(peer("A"), "t", "f4", vec![var("z")], ""),
            ]),
            vec!["A".into(), "M".into(), "B".into()],
        ),
        // two honest results before M, a failing service among them
        "SM2" => (
            seqs(vec![
                call(peer("A"), "t", "f1", vec![], "x"),
                xor(call(peer("A"), "e", "f2", vec![var("x")], ""), call(peer("A"), "l2", "f3", vec![], "w")),
                call(peer("M"), "t", "f4", vec![var("w")], "y"),
                par(call(peer("B"), "t", "f5", vec![var("x")], "u"), call(peer("B"), "t", "f6", vec![var("y")], "v")),
            ]),
            vec!["A".into(), "M".into(), "B".into()],
        ),
        // fold over a stream with par/next, values from A and M: fold lore, generations, par sizes
        "SM4" => (
            seqs(vec![
                call(peer("A"), "t", "f1@$s", vec![], "$s"),
                call(peer("M"), "t", "f2@$s", vec![], "$s"),
                Instr::Ap { src: lit_s("lit"), dst: "$s".into() },
                Instr::Fold {
                    it: var("$s"),
                    x: "i".into(),
                    i: Box::new(par(call(peer("B"), "t", "f3", vec![var("i")], ""), Instr::Next { x: "i".into() })),
                    last: Box::new(Instr::Absent),
                },
                call(peer("A"), "t", "f4", vec![], ""),
            ]),
            vec!["A".into(), "M".into(), "B".into()],
        ),
        // M produces the same result (same content id) several times: bags that differ only in multiplicities
        "SM5" => (
            seqs(vec![
                call(peer("A"), "t", "f1", vec![], "x"),
                call(peer("M"), "t", "f2", vec![var("x")], "a"),
                call(peer("M"), "t", "f2", vec![var("x")], "b"),
                call(peer("M"), "t", "f3", vec![var("x")], "c"),
                call(peer("M"), "t", "f3", vec![var("x")], "d"),
                call(peer("B"), "t", "f4", vec![var("a"), var("c")], "z"),
            ]),
            vec!["A".into(), "M".into(), "B".into()],
        ),
        // honest A makes the same call (peer, service, function) twice with different arguments, for every kind of
        // result (stream, scalar, failed): results that differ only in the arguments they were produced for
        "SM6" => (
            seqs(vec![
                call(peer("A"), "t", "f", vec![lit_n(1)], "$s"),
                call(peer("A"), "t", "f", vec![lit_n(2)], "$s"),
                call(peer("A"), "t", "g", vec![lit_n(1)], "x"),
                call(peer("A"), "t", "g", vec![lit_n(2)], "y"),
                xor(call(peer("A"), "e", "h", vec![lit_n(1)], ""), Instr::Null),
                xor(call(peer("A"), "e", "h", vec![lit_n(2)], ""), Instr::Null),
                call(peer("M"), "t", "m", vec![var("x")], "z"),
                call(peer("B"), "t", "fin", vec![var("z"), var("y")], ""),
            ]),
            vec!["A".into(), "M".into(), "B".into()],
        ),
        // data that comes to the victim a second time: honest A makes the same call before and after M; B first holds
        // A's first result (signed), M then claims a result for A's still pending second call and hides the first
        "SM7" => (
            seqs(vec![
                call(peer("A"), "t", "f", vec![], "x"),
                call(peer("M"), "t", "f2", vec![], "y"),
                call(peer("A"), "t", "f", vec![], "z"),
                call(peer("B"), "t", "f4", vec![var("x"), var("z")], ""),
            ]),
            vec!["A".into(), "M".into(), "B".into()],
        ),
        // stream values and a canon by an honest peer, relayed by M
        _ => (
            seqs(vec![
                call(peer("A"), "t", "f1@$s", vec![], "$s"),
                call(peer("A"), "t", "f2@$s", vec![lit_s("k")], "$s"),
                Instr::Canon { peer: peer("A"), s: "$s".into(), c: "#$c".into() },
                call(peer("M"), "t", "f3", vec![var("#$c")], "y"),
                call(peer("B"), "t", "f4", vec![var("#$c"), var("y")], "z"),
            ]),
            vec!["A".into(), "M".into(), "B".into()],
        ),
    }
}

/// runs the honest history until M has produced its forwarding datum for B; returns (net, name of M's datum version)
fn honest_prefix<'a>(peers: &'a Peers, base: &str) -> Net<'a> {
    let (script, names) = base_script(base);
    let mut n = Net::new(peers, 0, script, "A", names, "particle-1", Limits::default());
    n.probes = false;
    n.start();
    // flood: answer everything, deliver everything once, until M has forwarded to B
    for _ in 0..40 {
        let mut progressed = false;
        let pend: Vec<(String, Vec<u32>)> = n.pending.iter().filter(|(_, p)| !p.is_empty()).map(|(k, p)| (k.clone(), p.keys().copied().collect())).collect();
        for (p, ids) in pend {
            n.run("return", &p, None, &ids, &[]);
            progressed = true;
        }
        let undelivered: Vec<(String, usize, String)> = n.wanted.iter().filter(|m| n.delivered.get(*m).copied().unwrap_or(0) == 0 && m.2 != "B").cloned().collect();
        for m in undelivered {
            n.run("deliver", &m.2.clone(), Some((m.0.clone(), m.1)), &[], &[]);
            progressed = true;
        }
        if !progressed {
            break;
        }
    }
    n
}

/// is the result at trace position `k` attributed to peer `who` (by the tetraplet of its aggregate)?
fn is_attributed_to(dj: &J, k: usize, peers: &Peers, who: &str) -> bool {
    let st = &dj["trace"][k];
    let cid = st
        .pointer("/call/executed/scalar")
        .or_else(|| st.pointer("/call/executed/stream/cid"))
        .or_else(|| st.pointer("/call/failed"))
        .and_then(|c| c.as_str());
    let Some(cid) = cid else { return false };
    let Some(agg) = dj["cid_info"]["service_result_store"].get(cid) else { return false };
    let tcid = agg["tetraplet_cid"].as_str().unwrap_or("");
    let pk = dj["cid_info"]["tetraplet_store"].get(tcid).and_then(|t| t["peer_pk"].as_str()).unwrap_or("");
    pk == peers.id_of(who)
}

fn to_typed(dj: &J) -> Option<InterpreterData> {
    serde_json::from_value(dj.clone()).ok()
}

fn cid_of_json<T: serde::de::DeserializeOwned + serde::Serialize>(v: &J) -> Option<String> {
    let t: T = serde_json::from_value(v.clone()).ok()?;
    air_interpreter_cid::value_to_json_cid(&t).ok().map(|c| c.get_inner().to_string())
}

/// replace the service-result aggregate referenced by the call state at trace position `i`
/// with a modified copy (store stays self-consistent); returns false when the position holds no such state
fn rewrite_result(dj: &mut J, i: usize, f: &dyn Fn(&mut J, &mut J, &mut J)) -> bool {
    let st = dj["trace"][i].clone();
    let (path, cid): (Vec<&str>, String) = if let Some(c) = st.pointer("/call/executed/scalar").and_then(|c| c.as_str()) {
        (vec!["call", "executed", "scalar"], c.to_string())
    } else if let Some(c) = st.pointer("/call/executed/stream/cid").and_then(|c| c.as_str()) {
        (vec!["call", "executed", "stream", "cid"], c.to_string())
    } else if let Some(c) = st.pointer("/call/failed").and_then(|c| c.as_str()) {
        (vec!["call", "failed"], c.to_string())
    } else {
        return false;
    };
    let Some(agg) = dj["cid_info"]["service_result_store"].get(&cid).cloned() else { return false };
    let mut agg = agg;
    let vcid = agg["value_cid"].as_str().unwrap_or("").to_string();
    let tcid = agg["tetraplet_cid"].as_str().unwrap_or("").to_string();
    let mut raw = dj["cid_info"]["value_store"].get(&vcid).cloned().unwrap_or(J::Null);
    let mut tet = dj["cid_info"]["tetraplet_store"].get(&tcid).cloned().unwrap_or(J::Null);
    f(&mut raw, &mut tet, &mut agg);
    // re-hash bottom-up
    let raw_s = raw.as_str().unwrap_or("").to_string();
    let new_vcid = air_interpreter_cid::raw_value_to_json_cid::<()>(raw_s.as_bytes()).get_inner().to_string();
    dj["cid_info"]["value_store"][&new_vcid] = J::String(raw_s);
    let Some(new_tcid) = cid_of_json::<polyplets::SecurityTetraplet>(&tet) else { return false };
    dj["cid_info"]["tetraplet_store"][&new_tcid] = tet;
    agg["value_cid"] = J::String(new_vcid);
    agg["tetraplet_cid"] = J::String(new_tcid);
    let Some(new_cid) = cid_of_json::<air_interpreter_data::ServiceResultCidAggregate>(&agg) else { return false };
    dj["cid_info"]["service_result_store"][&new_cid] = agg;
    // patch the trace reference
    let mut node = &mut dj["trace"][i];
    for k in &path[..path.len() - 1] {
        node = &mut node[*k];
    }
    node[path[path.len() - 1]] = J::String(new_cid);
    true
}

fn resign(data: &mut InterpreterData, peers: &Peers, who: &str, salt: &str) {
    let dj = serde_json::to_value(&*data).unwrap_or(J::Null);
    let me = peers.id_of(who);
    let mut cids: Vec<Rc<str>> = vec![];
    for st in dj["trace"].as_array().cloned().unwrap_or_default() {
        let sr = st.pointer("/call/executed/scalar").or(st.pointer("/call/executed/stream/cid")).or(st.pointer("/call/failed")).and_then(|c| c.as_str());
        if let Some(c) = sr {
            let t = dj["cid_info"]["service_result_store"][c]["tetraplet_cid"].as_str().unwrap_or("");
            if dj["cid_info"]["tetraplet_store"][t]["peer_pk"].as_str() == Some(me.as_str()) {
                cids.push(Rc::from(c));
            }
        }
        if let Some(c) = st.pointer("/canon/executed").and_then(|c| c.as_str()) {
            let t = dj["cid_info"]["canon_result_store"][c]["tetraplet"].as_str().unwrap_or("");
            if dj["cid_info"]["tetraplet_store"][t]["peer_pk"].as_str() == Some(me.as_str()) {
                cids.push(Rc::from(c));
            }
        }
    }
    let kp = peers.kp_of(who);
    if let Ok(sig) = air_interpreter_signatures::sign_cids(cids, salt, kp) {
        let pk = air_interpreter_signatures::PublicKey::new(kp.public());
        data.signatures.put(pk, sig.into());
    }
}

/// apply one tamper operation to the decoded data (JSON form). Returns false when not applicable.
fn apply_op(dj: &mut J, op: &str, i: usize, j: usize, peers: &Peers) -> bool {
    let n = dj["trace"].as_array().map(|a| a.len()).unwrap_or(0);
    match op {
        "none" => true,
        "value_inplace" => {
            // change the stored text of the value without touching any key
            let st = dj["trace"].get(i).cloned().unwrap_or(J::Null);
            let cid = st.pointer("/call/executed/scalar").or(st.pointer("/call/executed/stream/cid")).and_then(|c| c.as_str()).map(|s| s.to_string());
            let Some(cid) = cid else { return false };
            let vcid = dj["cid_info"]["service_result_store"][&cid]["value_cid"].as_str().unwrap_or("").to_string();
            if dj["cid_info"]["value_store"].get(&vcid).is_none() {
                return false;
            }
            dj["cid_info"]["value_store"][&vcid] = J::String("\"forged\"".into());
            true
        }
        "value_rehash" => i < n && rewrite_result(dj, i, &|raw, _t, _a| *raw = J::String("\"forged\"".into())),
        "tetraplet_fn" => i < n && rewrite_result(dj, i, &|_r, t, _a| t["function_name"] = J::String("forged_fn".into())),
        "tetraplet_peer_to_m" => i < n && rewrite_result(dj, i, &|_r, t, _a| t["peer_pk"] = J::String(peers.id_of("M"))),
        "arghash" => i < n && rewrite_result(dj, i, &|_r, _t, a| a["argument_hash"] = J::String("bagaaihraforgedforgedforgedforgedforgedforgedforgedforgedforged".into())),
        "relocate" => {
            if i >= n || j >= n || i == j {
                return false;
            }
            let is_res = |s: &J| s.pointer("/call/executed").is_some() || s.pointer("/call/failed").is_some();
            if !is_res(&dj["trace"][i]) || !is_res(&dj["trace"][j]) {
                return false;
            }
            let a = dj["trace"][i].clone();
            let b = dj["trace"][j].clone();
            dj["trace"][i] = b;
            dj["trace"][j] = a;
            true
        }
        "copy_over" => {
            // overwrite the result at j with a copy of the result at i (a replay of q's result at another call)
            if i >= n || j >= n || i == j {
                return false;
            }
            let is_res = |s: &J| s.pointer("/call/executed").is_some() || s.pointer("/call/failed").is_some();
            if !is_res(&dj["trace"][i]) || dj["trace"][j].get("call").is_none() {
                return false;
            }
            dj["trace"][j] = dj["trace"][i].clone();
            true
        }
        "forge_pending" => {
            // a result of q replayed with a forged value (consistent store, q's tetraplet and argument hash kept) at a
            // call that is still pending (j), while q's genuine result at i is hidden behind a pending mark: the bag
            // attributed to q keeps its size
            if i >= n || j >= n || i == j {
                return false;
            }
            let is_res = |s: &J| s.pointer("/call/executed").is_some() || s.pointer("/call/failed").is_some();
            if !is_res(&dj["trace"][i]) || dj["trace"][j].pointer("/call/sent_by").is_none() {
                return false;
            }
            dj["trace"][j] = dj["trace"][i].clone();
            if !rewrite_result(dj, j, &|raw, _t, _a| *raw = J::String("\"forged\"".into())) {
                return false;
            }
            dj["trace"][i] = json!({"call": {"sent_by": {"PeerId": peers.id_of("M")}}});
            true
        }
        "to_failed" => {
            let st = dj["trace"].get(i).cloned().unwrap_or(J::Null);
            let Some(c) = st.pointer("/call/executed/scalar").and_then(|c| c.as_str()) else { return false };
            dj["trace"][i] = json!({"call": {"failed": c}});
            true
        }
        "to_stream" => {
            let st = dj["trace"].get(i).cloned().unwrap_or(J::Null);
            let Some(c) = st.pointer("/call/executed/scalar").and_then(|c| c.as_str()) else { return false };
            dj["trace"][i] = json!({"call": {"executed": {"stream": {"cid": c, "generation": 0}}}});
            true
        }
        "to_sent" => {
            // forget a result: mark the call as merely sent by M
            if i >= n || dj["trace"][i].get("call").is_none() {
                return false;
            }
            dj["trace"][i] = json!({"call": {"sent_by": {"PeerId": peers.id_of("M")}}});
            true
        }
        // ---- structural attacks on the parts no signature covers (C01)
        "par_sizes" => {
            if i >= n || dj["trace"][i].get("par").is_none() {
                return false;
            }
            let v: u64 = match j { 0 => 0, 1 => 1, 2 => 7, 3 => 1 << 31, 4 => u32::MAX as u64, _ => 1000 };
            let which = if j % 2 == 0 { 0 } else { 1 };
            dj["trace"][i]["par"][which] = json!(v);
            true
        }
        "par_both" => {
            if i >= n || dj["trace"][i].get("par").is_none() {
                return false;
            }
            let v: u64 = match j { 0 => 0, 1 => u32::MAX as u64, 2 => (u32::MAX as u64) - 1, _ => 1 << 31 };
            dj["trace"][i]["par"] = json!([v, v]);
            true
        }
        "generation" => {
            let v: u64 = match j { 0 => 0, 1 => 1, 2 => 0xCAFEBABE, 3 => u32::MAX as u64, 4 => (u32::MAX as u64) - 1, _ => 100000 };
            if i >= n {
                return false;
            }
            if dj["trace"][i].pointer("/call/executed/stream").is_some() {
                dj["trace"][i]["call"]["executed"]["stream"]["generation"] = json!(v);
                true
            } else if dj["trace"][i].get("ap").is_some() {
                dj["trace"][i]["ap"]["gens"] = json!([v]);
                true
            } else {
                false
            }
        }
        "ap_gens_shape" => {
            if i >= n || dj["trace"][i].get("ap").is_none() {
                return false;
            }
            dj["trace"][i]["ap"]["gens"] = if j == 0 { json!([]) } else { json!([0, 1, 2]) };
            true
        }
        "lore" => {
            if i >= n || dj["trace"][i].get("fold").is_none() {
                return false;
            }
            let lore = dj["trace"][i]["fold"]["lore"].as_array().cloned().unwrap_or_default();
            if lore.is_empty() {
                return false;
            }
            let big = u32::MAX as u64;
            match j {
                0 => dj["trace"][i]["fold"]["lore"][0]["pos"] = json!(big),
                1 => dj["trace"][i]["fold"]["lore"][0]["desc"][0]["pos"] = json!(big),
                2 => dj["trace"][i]["fold"]["lore"][0]["desc"][0]["len"] = json!(big),
                3 => dj["trace"][i]["fold"]["lore"][0]["desc"][1]["pos"] = json!(big - 1),
                4 => dj["trace"][i]["fold"]["lore"][0]["desc"][1]["len"] = json!(1 << 31),
                5 => {
                    // duplicate value position
                    let first = lore[0].clone();
                    dj["trace"][i]["fold"]["lore"].as_array_mut().unwrap().push(first);
                }
                6 => dj["trace"][i]["fold"]["lore"][0]["pos"] = json!(0),
                7 => dj["trace"][i]["fold"]["lore"][0]["desc"] = json!([]),
                8 => dj["trace"][i]["fold"]["lore"] = json!([]),
                _ => dj["trace"][i]["fold"]["lore"][0]["desc"][0]["len"] = json!(0),
            }
            true
        }
        "drop_store_entry" => {
            // remove what the state at i references from one of the stores (the store stays self-consistent for j = 0)
            let st = dj["trace"].get(i).cloned().unwrap_or(J::Null);
            let sr = st.pointer("/call/executed/scalar").or(st.pointer("/call/executed/stream/cid")).or(st.pointer("/call/failed")).and_then(|c| c.as_str()).map(|s| s.to_string());
            if let Some(c) = sr {
                let agg = dj["cid_info"]["service_result_store"].get(&c).cloned().unwrap_or(J::Null);
                match j {
                    0 => dj["cid_info"]["service_result_store"].as_object_mut().map(|o| o.remove(&c)).is_some(),
                    1 => {
                        let v = agg["value_cid"].as_str().unwrap_or("").to_string();
                        dj["cid_info"]["value_store"].as_object_mut().map(|o| o.remove(&v)).is_some()
                    }
                    _ => {
                        let t = agg["tetraplet_cid"].as_str().unwrap_or("").to_string();
                        dj["cid_info"]["tetraplet_store"].as_object_mut().map(|o| o.remove(&t)).is_some()
                    }
                }
            } else if let Some(c) = st.pointer("/canon/executed").and_then(|c| c.as_str()).map(|s| s.to_string()) {
                match j {
                    0 => dj["cid_info"]["canon_result_store"].as_object_mut().map(|o| o.remove(&c)).is_some(),
                    _ => {
                        let els: Vec<String> = dj["cid_info"]["canon_result_store"][&c]["values"].as_array().cloned().unwrap_or_default().iter().filter_map(|x| x.as_str().map(|s| s.to_string())).collect();
                        match els.first() {
                            Some(e) => dj["cid_info"]["canon_element_store"].as_object_mut().map(|o| o.remove(e)).is_some(),
                            None => false,
                        }
                    }
                }
            } else {
                false
            }
        }
        "raw_not_json" => i < n && rewrite_result(dj, i, &|raw, _t, _a| *raw = J::String("not json{".into())),
        "kind_swap" => {
            if i >= n {
                return false;
            }
            dj["trace"][i] = match j {
                0 => json!({"par": [1, 1]}),
                1 => json!({"ap": {"gens": [0]}}),
                2 => json!({"fold": {"lore": []}}),
                3 => json!({"canon": {"sent_by": peers.id_of("M")}}),
                4 => json!({"call": {"sent_by": {"PeerIdWithCallId": {"peer_id": peers.id_of("B"), "call_id": 1}}}}),
                _ => json!({"call": {"executed": {"unused": "bagaaihraforgedforgedforgedforgedforgedforgedforgedforgedforged"}}}),
            };
            true
        }
        "truncate" => {
            if i >= n {
                return false;
            }
            dj["trace"].as_array_mut().map(|a| a.truncate(i)).is_some()
        }
        "duplicate_state" => {
            if i >= n {
                return false;
            }
            let s = dj["trace"][i].clone();
            dj["trace"].as_array_mut().map(|a| a.insert(i, s)).is_some()
        }
        "lcid" => {
            dj["lcid"] = json!(match j { 0 => 0u64, 1 => u32::MAX as u64, _ => (u32::MAX as u64) - 1 });
            true
        }
        "drop_sig" | "swap_sig" => {
            let a = peers.kp_of("A");
            let pk_a = air_interpreter_signatures::PublicKey::new(a.public()).to_string();
            let pk_m = air_interpreter_signatures::PublicKey::new(peers.kp_of("M").public()).to_string();
            let Some(obj) = dj["signatures"].as_object_mut() else { return false };
            if op == "drop_sig" {
                obj.remove(&pk_a).is_some()
            } else {
                let (sa, sm) = (obj.get(&pk_a).cloned(), obj.get(&pk_m).cloned());
                match (sa, sm) {
                    (Some(sa), Some(sm)) => {
                        obj.insert(pk_a, sm);
                        obj.insert(pk_m, sa);
                        true
                    }
                    _ => false,
                }
            }
        }
        _ => false,
    }
}

/// every result state (projection) that appears in any datum of the honest history
fn honest_states(n: &Net) -> J {
    let mut seen = std::collections::BTreeSet::new();
    let mut v = vec![];
    for (_p, ds) in n.sent.iter() {
        for d in ds {
            let pr = proj::project(d, n.peers, &n.particle, &n.ah);
            for s in pr.data["trace"].as_array().cloned().unwrap_or_default() {
                let k = s["k"].as_str().unwrap_or("");
                if k == "exec" || k == "failed" || k == "cexec" {
                    let key = s.to_string();
                    if seen.insert(key) {
                        v.push(s);
                    }
                }
            }
        }
    }
    J::Array(v)
}

fn honest_log(n: &Net) -> J {
    // every (peer, srv, fn, args) an honest host was asked, recovered from the recorded runs
    let mut v = vec![];
    for r in &n.out {
        if r["k"] == "run" {
            for q in r["out"]["reqs"].as_array().cloned().unwrap_or_default() {
                v.push(json!({"p": r["peer"], "srv": q["srv"], "fn": q["fn"], "args": q["args"]}));
            }
        }
    }
    J::Array(v)
}

pub fn cmd_attack(args: &[String]) -> i32 {
    let inp = crate::arg(args, "--in").expect("--in");
    let outp = crate::arg(args, "--out").expect("--out");
    let peers = Peers::new();
    let f = std::fs::File::open(&inp).expect("open input");
    let mut w = BufWriter::new(std::fs::File::create(&outp).expect("create output"));
    let mut nrec = 0u64;
    let skip = crate::arg(args, "--skip").and_then(|s| s.parse::<u64>().ok()).unwrap_or(0);
    let journal = crate::arg(args, "--journal");
    let mut bases: std::collections::HashMap<String, Net> = std::collections::HashMap::new();
    for line in std::io::BufReader::new(f).lines() {
        let line = line.expect("read");
        if line.trim().is_empty() {
            continue;
        }
        let c: J = match serde_json::from_str(&line) {
            Ok(v) => v,
            Err(e) => {
                eprintln!("bad case: {e}");
                return 2;
            }
        };
        if nrec < skip {
            nrec += 1;
            continue;
        }
        if let Some(jp) = &journal {
            // the case about to run, so that the wrapper knows which input killed the process
            let _ = std::fs::write(jp, format!("{}\n{}\n", nrec + 1, line));
        }
        let base = c["base"].as_str().unwrap_or("SM1").to_string();
        if !bases.contains_key(&base) {
            bases.insert(base.clone(), honest_prefix(&peers, &base));
        }
        let n = bases.get(&base).unwrap();
        // M's latest datum is what it forwards to the victim B
        let Some(d) = n.sent.get("M").and_then(|s| s.last()).cloned() else {
            eprintln!("base {base}: M produced nothing");
            return 2;
        };
        let env = InterpreterDataEnvelope::try_from_slice(&d).expect("honest datum decodes");
        let data = InterpreterData::try_from_slice(&env.inner_data).expect("honest inner decodes");
        let mut dj = serde_json::to_value(&data).expect("to json");
        let i = c["i"].as_u64().unwrap_or(0) as usize;
        let j = c["j"].as_u64().unwrap_or(0) as usize;
        let op = c["op"].as_str().unwrap_or("none");
        let mut applicable = apply_op(&mut dj, op, i, j, &peers);
        let op2 = c["op2"].as_str().unwrap_or("none");
        if applicable && op2 != "none" {
            applicable = apply_op(&mut dj, op2, c["i2"].as_u64().unwrap_or(0) as usize, c["j2"].as_u64().unwrap_or(0) as usize, &peers);
        }
        nrec += 1;
        if !applicable {
            serde_json::to_writer(&mut w, &json!({"k": "atk", "n": nrec, "case": c, "applicable": false})).unwrap();
            w.write_all(b"\n").unwrap();
            continue;
        }
        let particle = if c["particle"].as_str() == Some("other") { "particle-2" } else { "particle-1" };
        let tampered: Vec<u8> = match to_typed(&dj) {
            Some(mut t) => {
                if c["resign"].as_bool().unwrap_or(true) {
                    resign(&mut t, &peers, "M", particle);
                }
                InterpreterDataEnvelope::from_execution_result(t.trace.clone(), t.cid_info.clone(), t.signatures.clone(), t.last_call_request_id, env.versions.interpreter_version.clone())
                    .serialize()
                    .unwrap_or_default()
            }
            None => {
                serde_json::to_writer(&mut w, &json!({"k": "atk", "n": nrec, "case": c, "applicable": false})).unwrap();
                w.write_all(b"\n").unwrap();
                continue;
            }
        };
        // the victim: B with empty previous data, or with previous data from an honest earlier delivery
        let victim = "B";
        let prev: Vec<u8> = if c["prev"].as_str() == Some("honest") {
            // B first receives the honest datum, then the tampered one
            let none = CallResults::new();
            net::run_raw(&peers, &n.script, &[], &d, "A", victim, "particle-1", &Limits::default(), &none).data
        } else if c["prev"].as_str() == Some("fork") {
            // B first receives (and accepts) another version of M's own results, signed by M: the first of M's
            // results re-hashed with another value; then the case's datum
            let mut fj = serde_json::to_value(&data).expect("to json");
            let ntr = fj["trace"].as_array().map(|a| a.len()).unwrap_or(0);
            let mut done = false;
            for k in 0..ntr {
                let mut probe = fj.clone();
                if apply_op(&mut probe, "value_rehash", k, 0, &peers) && is_attributed_to(&probe, k, &peers, "M") {
                    fj = probe;
                    done = true;
                    break;
                }
            }
            let fork: Vec<u8> = match (done, to_typed(&fj)) {
                (true, Some(mut t)) => {
                    resign(&mut t, &peers, "M", "particle-1");
                    InterpreterDataEnvelope::from_execution_result(t.trace.clone(), t.cid_info.clone(), t.signatures.clone(), t.last_call_request_id, env.versions.interpreter_version.clone())
                        .serialize()
                        .unwrap_or_default()
                }
                _ => vec![],
            };
            if fork.is_empty() {
                vec![]
            } else {
                let none = CallResults::new();
                let o1 = net::run_raw(&peers, &n.script, &[], &fork, "A", victim, "particle-1", &Limits::default(), &none);
                if o1.code == 0 || o1.code == 30000 { o1.data } else { vec![] }
            }
        } else {
            vec![]
        };
        let none = CallResults::new();
        let o = net::run_raw(&peers, &n.script, &prev, &tampered, "A", victim, particle, &Limits::default(), &none);
        let pr = proj::project(&o.data, &peers, particle, &n.ah);
        let tp = proj::project(&tampered, &peers, particle, &n.ah);
        let pp = proj::project(&prev, &peers, "particle-1", &n.ah);
        let op_ = proj::project(&d, &peers, "particle-1", &n.ah);
        let rec = json!({"k": "atk", "n": nrec, "case": c, "applicable": true,
            "script": serde_json::to_value(&n.ast).unwrap(), "honest": honest_log(n), "honest_states": honest_states(n), "orig": op_.data,
            "tampered": {"data": tp.data, "store_ok": tp.store_ok, "refs_ok": tp.refs_ok,
                         "sig": tp.sig.iter().map(|(k, (p, ok))| json!({"n": k, "present": p, "ok": ok})).collect::<Vec<_>>()},
            "prev": pp.data,
            "out": {"code": o.code.clamp(-1, (1 << 31) - 1), "died": o.died.clone().unwrap_or_default(), "eqprev": o.data == prev,
                    "data": pr.data, "decodes": pr.decodes, "msg": net::truncate(&o.msg, 200), "nnext": o.next.len()}});
        serde_json::to_writer(&mut w, &rec).unwrap();
        w.write_all(b"\n").unwrap();
        w.flush().unwrap();
    }
    w.flush().unwrap();
    println!("{}", json!({"cases": nrec}));
    0
}
