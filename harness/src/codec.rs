//! Encoding round-trip probes (C27), run after every simulated step.

use air_interpreter_data::{InterpreterData, InterpreterDataEnvelope};
use air_interpreter_interface::{CallRequestsRepr, CallResults, CallResultsRepr};
use air_interpreter_sede::{FromSerialized, ToSerialized};
use serde_json::{json, Value as J};

pub fn recode_probe(data: &[u8], reqs: &[u8], results: &CallResults) -> J {
    let mut data_rt = true;
    let mut ver_readable = true;
    if !data.is_empty() {
        match InterpreterDataEnvelope::try_from_slice(data) {
            Ok(env) => {
                ver_readable = InterpreterDataEnvelope::try_get_versions(data)
                    .map(|v| v.interpreter_version == env.versions.interpreter_version && v.data_version == env.versions.data_version)
                    .unwrap_or(false);
                match InterpreterData::try_from_slice(&env.inner_data) {
                    Ok(d) => {
                        let j1 = serde_json::to_value(&d).unwrap_or(J::Null);
                        let env2 = InterpreterDataEnvelope::from_execution_result(
                            d.trace.clone(),
                            d.cid_info.clone(),
                            d.signatures.clone(),
                            d.last_call_request_id,
                            env.versions.interpreter_version.clone(),
                        );
                        match env2.serialize() {
                            Ok(b2) => match InterpreterDataEnvelope::try_from_slice(&b2).ok().and_then(|e| InterpreterData::try_from_slice(&e.inner_data).ok()) {
                                Some(d2) => data_rt = serde_json::to_value(&d2).unwrap_or(J::Null) == j1,
                                None => data_rt = false,
                            },
                            Err(_) => data_rt = false,
                        }
                    }
                    Err(_) => data_rt = false,
                }
            }
            Err(_) => {
                data_rt = false;
                ver_readable = false;
            }
        }
    }
    let mut reqs_rt = true;
    if !reqs.is_empty() {
        match CallRequestsRepr.deserialize(reqs) {
            Ok(m) => match CallRequestsRepr.serialize(&m) {
                Ok(b) => match CallRequestsRepr.deserialize(&b) {
                    Ok(m2) => reqs_rt = m2 == m,
                    Err(_) => reqs_rt = false,
                },
                Err(_) => reqs_rt = false,
            },
            Err(_) => reqs_rt = false,
        }
    }
    let res_rt = match CallResultsRepr.serialize(results) {
        Ok(b) => match CallResultsRepr.deserialize(&b) {
            Ok(m2) => {
                m2.len() == results.len()
                    && results.iter().all(|(k, v)| m2.get(k).map(|w| w.ret_code == v.ret_code && w.result == v.result).unwrap_or(false))
            }
            Err(_) => false,
        },
        Err(_) => false,
    };
    json!({"done": true, "data_rt": data_rt, "ver_readable": ver_readable, "reqs_rt": reqs_rt, "res_rt": res_rt})
}
