//! Projection of interpreter data (bytes) to the abstract state the specification talks about:
//! the flat trace with every CID resolved to the content it addresses, `lcid`, the set of
//! peers with a signature, plus the facts the model does not compute (store hashes,
//! dangling references, signature validity), computed here independently of the code
//! under test where possible.

use air_interpreter_data::{InterpreterData, InterpreterDataEnvelope};
use serde_json::{json, Map, Value as J};
use sha2::Digest;
use std::collections::{BTreeMap, HashMap};

use crate::peers::Peers;

/// JSON value -> type-tagged value (see DESIGN.md §3.2). Peer ids become model names.
pub fn tag(v: &J, peers: &Peers) -> J {
    // uniform shape [t, s, q]: every field has one TLC type in every value, so equality is total
    match v {
        J::Null => json!({"t":"z","s":"","q":[]}),
        J::Bool(b) => json!({"t":"b","s":b.to_string(),"q":[]}),
        J::Number(n) => json!({"t":"n","s":n.to_string(),"q":[]}),
        J::String(s) => {
            if peers.is_id(s) {
                json!({"t":"s","s":peers.name_of(s),"q":[]})
            } else {
                json!({"t":"s","s":s,"q":[]})
            }
        }
        J::Array(a) => json!({"t":"a","s":"","q":a.iter().map(|x| tag(x, peers)).collect::<Vec<_>>()}),
        J::Object(o) => {
            let mut kv: Vec<(&String, &J)> = o.iter().collect();
            kv.sort_by(|a, b| a.0.cmp(b.0));
            json!({"t":"o","s":"","q":kv.iter().map(|(k, x)| json!({"t":"kv","s":k,"q":[tag(x, peers)]})).collect::<Vec<_>>()})
        }
    }
}

/// tagged value -> plain JSON (model names back to peer ids)
pub fn untag(v: &J, peers: &Peers) -> J {
    let s = v["s"].as_str().unwrap_or("");
    match v["t"].as_str() {
        Some("z") => J::Null,
        Some("b") => J::Bool(s == "true"),
        Some("n") => serde_json::from_str(s).unwrap_or(J::Null),
        Some("s") => {
            if peers.by_name.contains_key(s) {
                J::String(peers.id_of(s))
            } else {
                J::String(s.to_string())
            }
        }
        Some("a") => J::Array(v["q"].as_array().map(|a| a.iter().map(|x| untag(x, peers)).collect()).unwrap_or_default()),
        Some("o") => {
            let mut m = Map::new();
            if let Some(a) = v["q"].as_array() {
                for kv in a {
                    m.insert(kv["s"].as_str().unwrap_or("").to_string(), untag(&kv["q"][0], peers));
                }
            }
            J::Object(m)
        }
        _ => J::Null,
    }
}

pub fn special(t: &str, s: &str) -> J {
    json!({"t": t, "s": s, "q": []})
}

pub fn short(cid: &str) -> String {
    let n = cid.len();
    if n > 12 {
        cid[n - 12..].to_string()
    } else {
        cid.to_string()
    }
}

fn b32_decode(s: &str) -> Option<Vec<u8>> {
    let mut bits: u64 = 0;
    let mut nbits = 0;
    let mut out = vec![];
    for c in s.bytes() {
        let v = match c {
            b'a'..=b'z' => c - b'a',
            b'2'..=b'7' => c - b'2' + 26,
            _ => return None,
        } as u64;
        bits = (bits << 5) | v;
        nbits += 5;
        if nbits >= 8 {
            nbits -= 8;
            out.push(((bits >> nbits) & 0xff) as u8);
        }
    }
    Some(out)
}

/// Independent check "this CID is a CIDv1/json-codec id whose full sha2-256 or blake3-256 digest is the digest of `bytes`".
pub fn cid_matches(cid: &str, bytes: &[u8]) -> bool {
    let Some(rest) = cid.strip_prefix('b') else { return false };
    let Some(raw) = b32_decode(rest) else { return false };
    // version 1, codec 0x0200 (varint 0x80 0x04), multihash code, length 32
    if raw.len() != 4 + 1 + 32 || raw[0] != 1 || raw[1] != 0x80 || raw[2] != 0x04 || raw[4] != 32 {
        return false;
    }
    let digest = &raw[5..];
    match raw[3] {
        0x12 => sha2::Sha256::digest(bytes).as_slice() == digest,
        0x1e => fluence_blake3::hash(bytes).as_bytes().as_slice() == digest,
        _ => false,
    }
}

#[derive(Clone, Debug, Default)]
pub struct Proj {
    pub empty: bool,
    pub decodes: bool,
    pub version: String,
    pub ver_ok: bool,
    /// {"trace":[..],"lcid":n,"sigs":[names]}
    pub data: J,
    pub store_ok: bool,
    pub store_ok_repo: bool,
    pub refs_ok: bool,
    pub dangling: Vec<String>,
    /// per peer name with attributed results: (present, verifies)
    pub sig: BTreeMap<String, (bool, bool)>,
    /// per peer name: sorted list of attributed CIDs (full)
    pub attributed: BTreeMap<String, Vec<String>>,
    /// stores sizes
    pub nstore: usize,
    /// canonical digest of the decoded data (trace+stores+sigs+lcid), independent of map order
    pub digest: String,
    /// digest of the trace only
    pub tdigest: String,
}

pub fn empty_data_json() -> J {
    json!({"trace": [], "lcid": 0, "sigs": []})
}

pub fn digest_of(v: &J) -> String {
    // serde_json::Value objects are BTreeMaps here (no preserve_order): canonical
    let s = serde_json::to_vec(v).unwrap_or_default();
    let h = sha2::Sha256::digest(&s);
    let mut out = String::new();
    for b in h.iter().take(8) {
        out.push_str(&format!("{:02x}", b));
    }
    out
}

pub struct ArgHashes {
    pub map: HashMap<String, J>,
    /// value cid -> tagged value, learned from the results the harness handed in (for `unused` states)
    pub vals: HashMap<String, J>,
}

impl ArgHashes {
    pub fn new() -> Self {
        ArgHashes { map: HashMap::new(), vals: HashMap::new() }
    }
    pub fn value_of(&self, cid: &str) -> J {
        match self.vals.get(cid) {
            Some(v) => v.clone(),
            None => special("?", ""),
        }
    }
    pub fn resolve(&self, h: &str) -> J {
        match self.map.get(h) {
            Some(a) => json!({"t":"a","s":"","q":a}),
            None => special("h", &short(h)),
        }
    }
}

pub fn decode(bytes: &[u8]) -> Option<(InterpreterData, String, String)> {
    let env = InterpreterDataEnvelope::try_from_slice(bytes).ok()?;
    let data = InterpreterData::try_from_slice(&env.inner_data).ok()?;
    Some((data, env.versions.interpreter_version.to_string(), env.versions.data_version.to_string()))
}

pub fn project(bytes: &[u8], peers: &Peers, salt: &str, ah: &ArgHashes) -> Proj {
    let mut p = Proj::default();
    p.data = empty_data_json();
    if bytes.is_empty() {
        p.empty = true;
        p.digest = digest_of(&p.data);
        p.tdigest = digest_of(&p.data["trace"]);
        return p;
    }
    let Some((data, iver, _dver)) = decode(bytes) else {
        p.digest = "undecodable".into();
        p.tdigest = "undecodable".into();
        return p;
    };
    p.decodes = true;
    p.version = iver.clone();
    p.ver_ok = match semver::Version::parse(&iver) {
        Ok(v) => &v >= air::min_supported_version(),
        Err(_) => false,
    };
    let dj = match serde_json::to_value(&data) {
        Ok(j) => j,
        Err(_) => {
            p.decodes = false;
            return p;
        }
    };
    let ci = &dj["cid_info"];
    let vs = &ci["value_store"];
    let ts = &ci["tetraplet_store"];
    let ces = &ci["canon_element_store"];
    let crs = &ci["canon_result_store"];
    let srs = &ci["service_result_store"];
    p.nstore = [vs, ts, ces, crs, srs].iter().map(|m| m.as_object().map(|o| o.len()).unwrap_or(0)).sum();

    let mut dangling: Vec<String> = vec![];
    let mut attributed: BTreeMap<String, Vec<String>> = BTreeMap::new();

    let tetra = |cid: &J, dangling: &mut Vec<String>| -> (String, String, String, String) {
        let c = cid.as_str().unwrap_or("");
        match ts.get(c) {
            Some(t) => (
                peers.name_of(t["peer_pk"].as_str().unwrap_or("")),
                t["service_id"].as_str().unwrap_or("").to_string(),
                t["function_name"].as_str().unwrap_or("").to_string(),
                t["lens"].as_str().unwrap_or("").to_string(),
            ),
            None => {
                dangling.push(format!("tetraplet:{}", short(c)));
                ("!".into(), "!".into(), "!".into(), "!".into())
            }
        }
    };
    let value = |cid: &J, dangling: &mut Vec<String>| -> J {
        let c = cid.as_str().unwrap_or("");
        match vs.get(c) {
            Some(raw) => {
                let raw = raw.as_str().unwrap_or("");
                match serde_json::from_str::<J>(raw) {
                    Ok(v) => tag(&v, peers),
                    Err(_) => special("raw", raw),
                }
            }
            None => {
                dangling.push(format!("value:{}", short(c)));
                special("!", &short(c))
            }
        }
    };
    let service_result = |cid: &str, dangling: &mut Vec<String>| -> Option<(J, (String, String, String, String), J)> {
        match srs.get(cid) {
            Some(agg) => {
                let v = value(&agg["value_cid"], dangling);
                let t = tetra(&agg["tetraplet_cid"], dangling);
                let a = ah.resolve(agg["argument_hash"].as_str().unwrap_or(""));
                Some((v, t, a))
            }
            None => {
                dangling.push(format!("service_result:{}", short(cid)));
                None
            }
        }
    };

    let mut trace: Vec<J> = vec![];
    for st in dj["trace"].as_array().cloned().unwrap_or_default() {
        if let Some(parv) = st.get("par") {
            trace.push(json!({"k":"par","lsz":clamp(&parv[0]),"rsz":clamp(&parv[1])}));
        } else if let Some(c) = st.get("call") {
            if let Some(sb) = c.get("sent_by") {
                if let Some(pid) = sb.get("PeerId") {
                    trace.push(json!({"k":"sent","by":peers.name_of(pid.as_str().unwrap_or("")),"id":-1}));
                } else {
                    let w = &sb["PeerIdWithCallId"];
                    trace.push(json!({"k":"sent","by":peers.name_of(w["peer_id"].as_str().unwrap_or("")),"id":clamp(&w["call_id"])}));
                }
            } else if let Some(ex) = c.get("executed") {
                let (vt, cid, g) = if let Some(s) = ex.get("scalar") {
                    ("scalar", s.as_str().unwrap_or("").to_string(), json!(-1))
                } else if let Some(s) = ex.get("stream") {
                    ("stream", s["cid"].as_str().unwrap_or("").to_string(), clamp(&s["generation"]))
                } else {
                    ("unused", ex["unused"].as_str().unwrap_or("").to_string(), json!(-1))
                };
                if vt == "unused" {
                    trace.push(json!({"k":"exec","vt":"unused","c":short(&cid),"g":-1,
                        "v":ah.value_of(&cid),"p":"","s":"","f":"","lens":"","ah":special("h", ""),"sn":""}));
                } else {
                    match service_result(&cid, &mut dangling) {
                        Some((v, t, a)) => {
                            attributed.entry(t.0.clone()).or_default().push(cid.clone());
                            let sn = t.2.split_once('@').map(|x| x.1.to_string()).unwrap_or_default();
                            trace.push(json!({"k":"exec","vt":vt,"c":short(&cid),"g":g,"v":v,"p":t.0,"s":t.1,"f":t.2,"lens":t.3,"ah":a,"sn":sn}));
                        }
                        None => trace.push(json!({"k":"dangling","c":short(&cid)})),
                    }
                }
            } else if let Some(f) = c.get("failed") {
                let cid = f.as_str().unwrap_or("").to_string();
                match service_result(&cid, &mut dangling) {
                    Some((v, t, a)) => {
                        attributed.entry(t.0.clone()).or_default().push(cid.clone());
                        trace.push(json!({"k":"failed","c":short(&cid),"v":v,"p":t.0,"s":t.1,"f":t.2,"lens":t.3,"ah":a}));
                    }
                    None => trace.push(json!({"k":"dangling","c":short(&cid)})),
                }
            } else {
                trace.push(json!({"k":"unknown"}));
            }
        } else if let Some(f) = st.get("fold") {
            let mut lore = vec![];
            for l in f["lore"].as_array().cloned().unwrap_or_default() {
                let d: Vec<J> = l["desc"].as_array().cloned().unwrap_or_default().iter().map(|d| json!([clamp(&d["pos"]), clamp(&d["len"])])).collect();
                lore.push(json!({"vp": clamp(&l["pos"]), "d": d}));
            }
            trace.push(json!({"k":"fold","lore":lore}));
        } else if let Some(a) = st.get("ap") {
            let g: Vec<J> = a["gens"].as_array().cloned().unwrap_or_default().iter().map(clamp).collect();
            trace.push(json!({"k":"ap","gs":g}));
        } else if let Some(c) = st.get("canon") {
            if let Some(sb) = c.get("sent_by") {
                trace.push(json!({"k":"csent","by":peers.name_of(sb.as_str().unwrap_or(""))}));
            } else {
                let cid = c["executed"].as_str().unwrap_or("").to_string();
                match crs.get(&cid) {
                    Some(cr) => {
                        let t = tetra(&cr["tetraplet"], &mut dangling);
                        attributed.entry(t.0.clone()).or_default().push(cid.clone());
                        let mut vals = vec![];
                        for ec in cr["values"].as_array().cloned().unwrap_or_default() {
                            let ecs = ec.as_str().unwrap_or("");
                            match ces.get(ecs) {
                                Some(el) => {
                                    let v = value(&el["value"], &mut dangling);
                                    let et = tetra(&el["tetraplet"], &mut dangling);
                                    let prov = match el["provenance"]["type"].as_str() {
                                        Some("literal") => "literal".to_string(),
                                        Some("service_result") => {
                                            let pc = el["provenance"]["cid"].as_str().unwrap_or("");
                                            if srs.get(pc).is_none() {
                                                dangling.push(format!("prov_sr:{}", short(pc)));
                                            }
                                            format!("sr:{}", short(pc))
                                        }
                                        Some("canon") => {
                                            let pc = el["provenance"]["cid"].as_str().unwrap_or("");
                                            if crs.get(pc).is_none() {
                                                dangling.push(format!("prov_canon:{}", short(pc)));
                                            }
                                            format!("canon:{}", short(pc))
                                        }
                                        _ => "?".to_string(),
                                    };
                                    let (pk, pc) = match prov.split_once(':') {
                                        Some((a, b)) => (a.to_string(), b.to_string()),
                                        None => (prov.clone(), String::new()),
                                    };
                                    vals.push(json!({"v":v,"p":et.0,"s":et.1,"f":et.2,"lens":et.3,"prov":pk,"provc":pc}));
                                }
                                None => {
                                    dangling.push(format!("canon_element:{}", short(ecs)));
                                    vals.push(json!({"v":special("!", &short(ecs)),"p":"!","s":"!","f":"!","lens":"!","prov":"!","provc":""}));
                                }
                            }
                        }
                        trace.push(json!({"k":"cexec","c":short(&cid),"p":t.0,"s":t.1,"f":t.2,"lens":t.3,"vals":vals}));
                    }
                    None => {
                        dangling.push(format!("canon_result:{}", short(&cid)));
                        trace.push(json!({"k":"dangling","c":short(&cid)}));
                    }
                }
            }
        } else {
            trace.push(json!({"k":"unknown"}));
        }
    }

    // references between stored aggregates
    if let Some(o) = srs.as_object() {
        for (_c, agg) in o {
            let _ = value(&agg["value_cid"], &mut dangling);
            let _ = tetra(&agg["tetraplet_cid"], &mut dangling);
        }
    }
    if let Some(o) = crs.as_object() {
        for (_c, cr) in o {
            let _ = tetra(&cr["tetraplet"], &mut dangling);
            for ec in cr["values"].as_array().cloned().unwrap_or_default() {
                if ces.get(ec.as_str().unwrap_or("")).is_none() {
                    dangling.push(format!("canon_element:{}", short(ec.as_str().unwrap_or(""))));
                }
            }
        }
    }
    if let Some(o) = ces.as_object() {
        for (_c, el) in o {
            let _ = value(&el["value"], &mut dangling);
            let _ = tetra(&el["tetraplet"], &mut dangling);
        }
    }
    dangling.sort();
    dangling.dedup();
    p.refs_ok = dangling.is_empty();
    p.dangling = dangling;

    // independent store verification: every entry hashes to its key
    let mut ok = true;
    if let Some(o) = vs.as_object() {
        for (c, raw) in o {
            ok &= cid_matches(c, raw.as_str().unwrap_or("").as_bytes());
        }
    }
    for (c, v) in data.cid_info.tetraplet_store.iter() {
        ok &= cid_matches(&c.get_inner(), &serde_json::to_vec(&**v).unwrap_or_default());
    }
    for (c, v) in data.cid_info.canon_element_store.iter() {
        ok &= cid_matches(&c.get_inner(), &serde_json::to_vec(&**v).unwrap_or_default());
    }
    for (c, v) in data.cid_info.canon_result_store.iter() {
        ok &= cid_matches(&c.get_inner(), &serde_json::to_vec(&**v).unwrap_or_default());
    }
    for (c, v) in data.cid_info.service_result_store.iter() {
        ok &= cid_matches(&c.get_inner(), &serde_json::to_vec(&**v).unwrap_or_default());
    }
    p.store_ok = ok;
    p.store_ok_repo = std::panic::catch_unwind(std::panic::AssertUnwindSafe(|| data.cid_info.verify().is_ok())).unwrap_or(false);

    // signatures: which peers have one, and whether it verifies over the attributed bag
    let mut signers: BTreeMap<String, (air_interpreter_signatures::PublicKey, air_interpreter_signatures::Signature)> = BTreeMap::new();
    for (pk, sig) in data.signatures.iter() {
        if let Ok(id) = pk.to_peer_id() {
            signers.insert(peers.name_of(&id), (pk.clone(), sig.clone()));
        }
    }
    for (name, cids) in attributed.iter_mut() {
        cids.sort();
        let present = signers.contains_key(name);
        let okv = match signers.get(name) {
            Some((pk, sig)) => {
                let rc: Vec<std::rc::Rc<str>> = cids.iter().map(|c| std::rc::Rc::from(c.as_str())).collect();
                pk.verify(&rc, salt, sig).is_ok()
            }
            None => false,
        };
        p.sig.insert(name.clone(), (present, okv));
    }
    // signers without attributed results: the signature must verify over the empty bag
    for (name, (pk, sig)) in signers.iter() {
        if !p.sig.contains_key(name) {
            let rc: Vec<std::rc::Rc<str>> = vec![];
            p.sig.insert(name.clone(), (true, pk.verify(&rc, salt, sig).is_ok()));
        }
    }
    p.attributed = attributed;

    let mut sigs: Vec<String> = signers.keys().cloned().collect();
    sigs.sort();
    p.data = json!({"trace": trace, "lcid": clamp(&dj["lcid"]), "sigs": sigs});
    p.tdigest = digest_of(&p.data["trace"]);
    // full digest: trace projection + raw stores (as maps) + signatures + lcid
    p.digest = digest_of(&json!({"t": dj["trace"], "l": dj["lcid"], "c": dj["cid_info"], "s": dj["signatures"], "v": iver}));
    p
}

/// numbers >= 2^31 cannot be represented by TLC: tag them
fn clamp(v: &J) -> J {
    match v.as_u64() {
        Some(n) if n < (1u64 << 31) => json!(n),
        Some(n) if n == 0xCAFEBABE => json!(-2),
        Some(_) => json!(-3),
        None => json!(-4),
    }
}
