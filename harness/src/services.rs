//! The fixed deterministic service algebra, implemented identically in `AirValues.tla` (`Service`).

use serde_json::{json, Value as J};

pub struct SvcResult {
    pub ret_code: i32,
    pub body: String,
}

pub fn service(srv: &str, func: &str, args: &[J]) -> SvcResult {
    let ok = |v: J| SvcResult { ret_code: 0, body: v.to_string() };
    match srv {
        "e" => SvcResult { ret_code: 1, body: J::String(format!("err:{func}")).to_string() },
        "l2" => ok(json!([format!("{func}.0"), format!("{func}.1")])),
        "l3" => ok(json!([format!("{func}.0"), format!("{func}.1"), format!("{func}.2")])),
        "arr" => ok(J::Array(args.to_vec())),
        "id" => ok(args.first().cloned().unwrap_or(J::Null)),
        "junk" => SvcResult { ret_code: 0, body: "not json{".to_string() },
        "n" => ok(json!(args.len())),
        "o" => ok(json!({"a": args.first().cloned().unwrap_or(J::String(func.to_string())), "b": [func, "x"], "n": 1})),
        "big" => ok(J::String("x".repeat(1000))),
        _ => {
            let mut v = vec![J::String(func.to_string())];
            v.extend(args.iter().cloned());
            ok(J::Array(v))
        }
    }
}
