//! Seeded random generator of well-scoped AIR scripts (by fragment / profile).

use rand::rngs::StdRng;
use rand::seq::SliceRandom;
use rand::Rng;

use crate::ast::*;

#[derive(Clone, Copy, PartialEq, Debug)]
pub enum Profile {
    /// call/seq/par/xor/null/never/fail/match/mismatch/ap/new/fold over scalars (stage-1 model fragment)
    Core,
    /// Core + streams, canon, stream folds, new-scoped streams
    Stream,
    /// everything incl. maps and error objects
    Full,
    /// C16 fragment: Core where every fallible instruction sits under an xor with no par in between
    SeqFrag,
}

#[derive(Clone, Copy, PartialEq, Debug)]
enum Kind {
    Str,
    Arr,
    /// array with at least one element (index 0 is the only index known to be valid)
    Arr1,
    PeerId,
    PeerList,
    Obj,
    Num,
    /// the scalar rendering of a stream map (`canon peer %m x`): an object keyed by the map's keys
    MapObj,
    /// a {key, value} pair (iterator of a fold over a stream map)
    KV,
}

#[derive(Clone, Default)]
struct Env {
    scalars: Vec<(String, Kind)>,
    streams: Vec<String>,
    canons: Vec<String>,
    maps: Vec<String>,
    canonmaps: Vec<String>,
    /// (iterator name, element kind)
    iters: Vec<(String, Kind)>,
    /// inside xor-left with no par in between: failures are caught
    guarded: bool,
    in_fold: bool,
}

impl Env {
    /// stream / map names are not values: using one that was never appended to is fine at run time
    fn absorb_streams(&mut self, other: &Env) {
        for s in &other.streams {
            if !self.streams.contains(s) {
                self.streams.push(s.clone());
            }
        }
        for s in &other.maps {
            if !self.maps.contains(s) {
                self.maps.push(s.clone());
            }
        }
    }
}

pub struct Gen<'a> {
    pub rng: &'a mut StdRng,
    /// allow uses of variables defined in a par sibling / earlier par (join behaviour)
    pub joins: bool,
    pub peers: Vec<String>,
    pub init: String,
    pub profile: Profile,
    fcount: u32,
    xcount: u32,
    scount: u32,
    budget: i32,
}

impl<'a> Gen<'a> {
    pub fn new(rng: &'a mut StdRng, peers: Vec<String>, init: &str, profile: Profile, budget: i32) -> Self {
        Gen { rng, joins: true, peers, init: init.to_string(), profile, fcount: 0, xcount: 0, scount: 0, budget }
    }

    fn fname(&mut self, stream: &str) -> String {
        self.fcount += 1;
        if stream.is_empty() {
            format!("f{}", self.fcount)
        } else {
            format!("f{}@{}", self.fcount, stream)
        }
    }
    fn xname(&mut self) -> String {
        self.xcount += 1;
        format!("x{}", self.xcount)
    }
    fn sname(&mut self, sigil: &str) -> String {
        self.scount += 1;
        format!("{}s{}", sigil, self.scount)
    }
    fn chance(&mut self, p: f64) -> bool {
        self.rng.gen_bool(p)
    }
    fn pick_peer_name(&mut self) -> String {
        self.peers.choose(self.rng).cloned().unwrap_or_else(|| "A".into())
    }
    fn streams_on(&self) -> bool {
        matches!(self.profile, Profile::Stream | Profile::Full)
    }

    fn pick_peer(&mut self, env: &Env) -> Opnd {
        let dynamic: Vec<Opnd> = env
            .scalars
            .iter()
            .filter_map(|(n, k)| match k {
                Kind::PeerId => Some(var(n)),
                Kind::PeerList if self.profile != Profile::SeqFrag || env.guarded => Some(varl(n, vec![Lens::Idx { v: 0 }])),
                _ => None,
            })
            .collect();
        if !dynamic.is_empty() && self.chance(0.35) {
            return dynamic.choose(self.rng).cloned().unwrap();
        }
        if self.chance(0.1) {
            return Opnd::Init;
        }
        let n = self.pick_peer_name();
        peer(&n)
    }

    fn pick_arg(&mut self, env: &Env) -> Opnd {
        let mut cands: Vec<Opnd> = vec![];
        // accessors taken from scalars (x.$.[k]): a number indexes an array
        let nums: Vec<String> = if self.profile == Profile::Full { env.scalars.iter().filter(|(_, k)| *k == Kind::Num).map(|(n, _)| n.clone()).collect() } else { vec![] };
        for (n, k) in &env.scalars {
            if matches!(k, Kind::Arr | Kind::Arr1 | Kind::PeerList) {
                for kn in &nums {
                    cands.push(varl(n, vec![Lens::Var { v: kn.clone() }]));
                }
            }
        }
        for (n, k) in &env.scalars {
            cands.push(var(n));
            match k {
                Kind::Arr | Kind::PeerList => {
                    cands.push(varl(n, vec![Lens::Idx { v: 0 }]));
                    cands.push(varl(n, vec![Lens::Idx { v: 1 }]));
                    if self.profile == Profile::Full || self.profile == Profile::SeqFrag {
                        cands.push(varl(n, vec![Lens::Len]));
                    }
                }
                Kind::Arr1 => {
                    cands.push(varl(n, vec![Lens::Idx { v: 0 }]));
                }
                Kind::MapObj => {
                    cands.push(var(n));
                    cands.push(varl(n, vec![Lens::Field { v: "k1".into() }]));
                    cands.push(varl(n, vec![Lens::Field { v: "k1".into() }]));
                }
                Kind::KV => {
                    cands.push(varl(n, vec![Lens::Field { v: "key".into() }]));
                    cands.push(varl(n, vec![Lens::Field { v: "value".into() }]));
                }
                Kind::Obj => {
                    cands.push(varl(n, vec![Lens::Field { v: "a".into() }]));
                    cands.push(varl(n, vec![Lens::Field { v: "b".into() }, Lens::Idx { v: 0 }]));
                }
                _ => {}
            }
        }
        for (n, k) in &env.iters {
            cands.push(var(n));
            cands.push(var(n));
            if *k == Kind::KV {
                cands.push(varl(n, vec![Lens::Field { v: "key".into() }]));
                cands.push(varl(n, vec![Lens::Field { v: "value".into() }]));
            }
        }
        if self.streams_on() {
            for c in &env.canons {
                cands.push(var(c));
                if self.profile == Profile::Full {
                    cands.push(varl(c, vec![Lens::Idx { v: 0 }]));
                }
            }
            if self.profile == Profile::Full {
                for c in &env.canonmaps {
                    for _ in 0..3 {
                        cands.push(var(c));
                        cands.push(varl(c, vec![Lens::Field { v: "k1".into() }]));
                        cands.push(varl(c, vec![Lens::Field { v: "k2".into() }]));
                    }
                }
            }
        }
        let r = self.rng.gen_range(0..10);
        if cands.is_empty() || r == 0 {
            let k = if self.profile == Profile::Full { self.rng.gen_range(0..6) } else { self.rng.gen_range(0..4) };
            return match k {
                4 => Opnd::Ttl,
                5 => Opnd::Timestamp,
                0 => lit_s("a"),
                1 => lit_n(self.rng.gen_range(0..3)),
                2 => Opnd::Init,
                _ => {
                    let n = self.pick_peer_name();
                    peer(&n)
                }
            };
        }
        let picked = cands.choose(self.rng).cloned().unwrap();
        // in the sequential fragment anything that can fail (a lens) must be guarded by an xor
        if self.profile == Profile::SeqFrag && !env.guarded {
            if let Opnd::Var { n, lens } = &picked {
                if !lens.is_empty() {
                    return var(n);
                }
            }
        }
        picked
    }

    fn gen_args(&mut self, env: &Env) -> Vec<Opnd> {
        let n = self.rng.gen_range(0..3);
        (0..n).map(|_| self.pick_arg(env)).collect()
    }

    /// a call; returns instruction and the updated env
    fn gen_call(&mut self, env: &Env, failing: bool) -> (Instr, Env) {
        let mut e = env.clone();
        let p = self.pick_peer(env);
        let args = self.gen_args(env);
        if failing {
            let f = self.fname("");
            let srv = if self.profile == Profile::Full && self.chance(0.15) { "junk" } else { "e" };
            return (call(p, srv, &f, args, ""), e);
        }
        let r = self.rng.gen_range(0..100);
        // output into a stream
        if self.streams_on() && r < 30 {
            let s = if !e.streams.is_empty() && self.chance(0.75) { e.streams.choose(self.rng).cloned().unwrap() } else { self.sname("$") };
            if !e.streams.contains(&s) {
                e.streams.push(s.clone());
            }
            let f = self.fname(&s);
            return (call(p, "t", &f, args, &s), e);
        }
        if r < 40 {
            let f = self.fname("");
            return (call(p, "t", &f, args, ""), e);
        }
        let x = self.xname();
        let f = self.fname("");
        let (srv, kind, args) = match self.rng.gen_range(0..12) {
            0 | 1 => (if self.chance(0.5) { "l2" } else { "l3" }, Kind::Arr, args),
            2 => {
                // a peer id through the echo service
                let n = self.pick_peer_name();
                ("id", Kind::PeerId, vec![peer(&n)])
            }
            3 => {
                let a = self.pick_peer_name();
                let b = self.pick_peer_name();
                ("arr", Kind::PeerList, vec![peer(&a), peer(&b)])
            }
            4 => ("o", Kind::Obj, args),
            5 if self.profile == Profile::Full => ("n", Kind::Num, args),
            _ => ("t", Kind::Arr1, args),
        };
        e.scalars.push((x.clone(), kind));
        (call(p, srv, &f, args, &x), e)
    }

    fn gen_leaf(&mut self, env: &Env) -> (Instr, Env) {
        let mut e = env.clone();
        let r = self.rng.gen_range(0..100);
        let fallible_ok = self.profile != Profile::SeqFrag || env.guarded;
        if r < 62 {
            return self.gen_call(env, false);
        }
        if r < 70 && fallible_ok {
            return self.gen_call(env, true);
        }
        if r < 76 {
            // ap into scalar or stream
            let src = self.pick_arg(env);
            // a lens may fail (catchable): only where allowed
            let src = match (&src, fallible_ok) {
                (Opnd::Var { n, lens }, false) if !lens.is_empty() => var(n),
                _ => src,
            };
            if let Opnd::Var { n, .. } = &src {
                if n.starts_with('#') && (self.profile != Profile::Full || n.starts_with("#%")) {
                    return self.gen_call(env, false);
                }
            }
            if self.streams_on() && self.chance(0.5) {
                let s = if !e.streams.is_empty() && self.chance(0.7) { e.streams.choose(self.rng).cloned().unwrap() } else { self.sname("$") };
                if !e.streams.contains(&s) {
                    e.streams.push(s.clone());
                }
                return (Instr::Ap { src, dst: s }, e);
            }
            let x = self.xname();
            e.scalars.push((x.clone(), Kind::Str));
            return (Instr::Ap { src, dst: x }, e);
        }
        if r < 80 {
            return (Instr::Null, e);
        }
        if r < 83 && self.profile != Profile::SeqFrag {
            return (Instr::Never, e);
        }
        if r < 88 && fallible_ok {
            if self.profile == Profile::Full && self.chance(0.4) {
                // re-raise the last / the current error (an invalid error object when there is none)
                let a = if self.chance(0.5) { Opnd::LastError { lens: vec![] } } else { Opnd::Error { lens: vec![] } };
                return (Instr::Fail { a, b: Opnd::EmptyArr }, e);
            }
            return (Instr::Fail { a: lit_n(self.rng.gen_range(1..5)), b: lit_s("boom") }, e);
        }
        if self.streams_on() && r < 97 && !e.streams.is_empty() {
            let s = e.streams.choose(self.rng).cloned().unwrap();
            let c = format!("#{}c{}", s, {
                self.scount += 1;
                self.scount
            });
            let p = self.pick_peer(env);
            e.canons.push(c.clone());
            return (Instr::Canon { peer: p, s, c }, e);
        }
        if self.profile == Profile::Full && r < 98 && !e.maps.is_empty() && self.chance(0.45) {
            // canon of a stream map: into a canon map, or rendered into a scalar
            let m = e.maps.choose(self.rng).cloned().unwrap();
            let p = self.pick_peer(env);
            if self.chance(0.5) {
                let c = format!("#{}c{}", m, {
                    self.scount += 1;
                    self.scount
                });
                e.canonmaps.push(c.clone());
                return (Instr::Canon { peer: p, s: m, c }, e);
            }
            let x = self.xname();
            e.scalars.push((x.clone(), Kind::MapObj));
            return (Instr::Canon { peer: p, s: m, c: x }, e);
        }
        if self.profile == Profile::Full && r < 99 {
            // stream map insert
            let m = if !e.maps.is_empty() && self.chance(0.7) { e.maps.choose(self.rng).cloned().unwrap() } else { self.sname("%") };
            if !e.maps.contains(&m) {
                e.maps.push(m.clone());
            }
            let key = if self.chance(0.5) { lit_s(["k1", "k2"].choose(self.rng).unwrap()) } else { lit_n(self.rng.gen_range(0..2)) };
            let src = self.pick_arg(env);
            if let Opnd::Var { n, .. } = &src {
                if n.starts_with('#') {
                    return (Instr::ApMap { key, src: lit_s("v"), dst: m }, e);
                }
            }
            return (Instr::ApMap { key, src, dst: m }, e);
        }
        self.gen_call(env, false)
    }

    pub fn gen(&mut self, depth: u32) -> Instr {
        let env = Env::default();
        // first instruction: a call on the init peer so that something happens at start
        let f = self.fname("");
        let x = self.xname();
        let mut e = env.clone();
        e.scalars.push((x.clone(), Kind::Arr));
        let first = call(peer(&self.init.clone()), "l2", &f, vec![], &x);
        let (rest, _) = self.gen_instr(depth, &e);
        seq(first, rest)
    }

    fn gen_instr(&mut self, depth: u32, env: &Env) -> (Instr, Env) {
        self.budget -= 1;
        if depth == 0 || self.budget <= 0 {
            return self.gen_leaf(env);
        }
        let r = self.rng.gen_range(0..100);
        if r < 30 {
            let (l, e1) = self.gen_instr(depth - 1, env);
            let (rr, e2) = self.gen_instr(depth - 1, &e1);
            return (seq(l, rr), e2);
        }
        if r < 45 {
            let mut el = env.clone();
            el.guarded = false;
            let (l, e1) = self.gen_instr(depth - 1, &el);
            // with joins the right side may use what the left side defines (and waits for it at run time)
            let mut er = if self.joins { e1.clone() } else { env.clone() };
            er.absorb_streams(&e1);
            er.guarded = false;
            let (rr, e2) = self.gen_instr(depth - 1, &er);
            let mut out = if self.joins { e2.clone() } else { env.clone() };
            out.absorb_streams(&e1);
            out.absorb_streams(&e2);
            out.guarded = env.guarded;
            return (par(l, rr), out);
        }
        if r < 60 {
            let mut el = env.clone();
            el.guarded = true;
            let (l, e1) = self.gen_instr(depth - 1, &el);
            // definitions made in either branch of an xor are not reliable afterwards: nothing is exported
            let mut er = env.clone();
            er.absorb_streams(&e1);
            er.guarded = env.guarded;
            let (mut rr, e2) = self.gen_instr(depth - 1, &er);
            if self.profile == Profile::Full && self.chance(0.5) {
                let f = self.fname("");
                let p = self.pick_peer(env);
                let a = if self.chance(0.5) { Opnd::Error { lens: vec![Lens::Field { v: "error_code".into() }] } } else { Opnd::LastError { lens: vec![Lens::Field { v: "error_code".into() }] } };
                rr = seq(call(p, "t", &f, vec![a], ""), rr);
            }
            let mut out = env.clone();
            out.absorb_streams(&e1);
            out.absorb_streams(&e2);
            return (xor(l, rr), out);
        }
        if r < 68 {
            // match / mismatch on something resolvable
            let fallible_ok = self.profile != Profile::SeqFrag || env.guarded;
            if !fallible_ok {
                return self.gen_instr(depth - 1, env);
            }
            let a = self.pick_arg(env);
            let b = if self.chance(0.5) { a.clone() } else { lit_s("a") };
            let (i, e1) = self.gen_instr(depth - 1, env);
            let _ = e1;
            return if self.chance(0.5) { (Instr::Match { a, b, i: Box::new(i) }, env.clone()) } else { (Instr::Mismatch { a, b, i: Box::new(i) }, env.clone()) };
        }
        if r < 82 {
            // fold over a scalar array / iterator-free
            let mut arrs: Vec<Opnd> = env.scalars.iter().filter(|(_, k)| *k == Kind::Arr || *k == Kind::Arr1 || *k == Kind::PeerList).map(|(n, _)| var(n)).collect();
            // an iterable reached through a lens (the array field of an object); in the sequential fragment only where
            // a failure would be caught
            if self.profile != Profile::SeqFrag || env.guarded {
                for (n, k) in &env.scalars {
                    if *k == Kind::Obj {
                        arrs.push(varl(n, vec![Lens::Field { v: "b".into() }]));
                        arrs.push(varl(n, vec![Lens::Field { v: "b".into() }]));
                    }
                }
            }
            if let Some(a) = arrs.choose(self.rng).cloned() {
                let it = {
                    self.xcount += 1;
                    format!("i{}", self.xcount)
                };
                let mut eb = env.clone();
                eb.iters.push((it.clone(), Kind::Str));
                eb.in_fold = true;
                let (body, _) = self.gen_instr(depth - 1, &eb);
                let nx = Instr::Next { x: it.clone() };
                let shape = self.rng.gen_range(0..10);
                let i = if shape < 4 {
                    seq(body, nx)
                } else if shape < 7 {
                    par(body, nx)
                } else {
                    // instructions after next (the way back out of the fold): the iterator is read again
                    let after = if self.chance(0.7) {
                        let p = self.pick_peer(&eb);
                        let f = self.fname("");
                        call(p, "t", &f, vec![var(&it)], "")
                    } else {
                        self.gen_leaf(&eb).0
                    };
                    match shape {
                        7 => seq(body, seq(nx, after)),
                        8 => par(nx, after),
                        // the next iteration runs inside a `new` scope opened by this one (dynamic nesting of scopes)
                        _ if self.streams_on() => {
                            let s = if !eb.streams.is_empty() && self.chance(0.7) { eb.streams.choose(self.rng).cloned().unwrap() } else { self.sname("$") };
                            let f = self.fname(&s);
                            let p = self.pick_peer(&eb);
                            let inner = if self.chance(0.5) { Instr::Ap { src: var(&it), dst: s.clone() } } else { call(p, "t", &f, vec![var(&it)], &s) };
                            seq(body, Instr::New { n: s, i: Box::new(seq(inner, nx)) })
                        }
                        _ => seq(nx, after),
                    }
                };
                let last = if self.profile == Profile::Full && self.chance(0.2) { Instr::Null } else { Instr::Absent };
                return (Instr::Fold { it: a, x: it, i: Box::new(i), last: Box::new(last) }, env.clone());
            }
            return self.gen_instr(depth - 1, env);
        }
        if r < 90 && self.streams_on() {
            // fold over a stream / canon stream
            let over_canon = !env.canons.is_empty() && self.chance(0.4);
            let over_map = self.profile == Profile::Full && !env.maps.is_empty() && self.chance(0.3);
            let src = if over_map {
                env.maps.choose(self.rng).cloned()
            } else if over_canon {
                env.canons.choose(self.rng).cloned()
            } else {
                env.streams.choose(self.rng).cloned()
            };
            let over_canon = over_canon && !over_map;
            if let Some(s) = src {
                let it = {
                    self.xcount += 1;
                    format!("i{}", self.xcount)
                };
                let mut eb = env.clone();
                eb.iters.push((it.clone(), if over_map { Kind::KV } else { Kind::Arr }));
                eb.in_fold = true;
                // no unguarded append to the stream being folded over (a self-feeding fold only ends at the 1024 cap)
                if !over_canon {
                    eb.streams.retain(|x| x != &s);
                    eb.maps.retain(|x| x != &s);
                }
                let (mut body, _) = self.gen_instr(depth.saturating_sub(2), &eb);
                if !over_canon && !over_map && self.chance(0.3) {
                    // bounded recursion: elements whose head matches get one more append
                    let f = self.fname(&s);
                    let p = self.pick_peer(env);
                    let guard = Instr::Match {
                        a: varl(&it, vec![Lens::Idx { v: 0 }]),
                        b: lit_s("f2"),
                        i: Box::new(call(p, "t", &f, vec![var(&it)], &s)),
                    };
                    body = par(guard, body);
                }
                let nx = Instr::Next { x: it.clone() };
                // stream folds mostly fan out (par); the sequential shape stops at the first iteration that is not complete
                let i = if self.chance(if over_canon { 0.7 } else { 0.75 }) { par(body, nx) } else { seq(body, nx) };
                let last = if self.profile == Profile::Full && self.chance(0.2) { Instr::Null } else { Instr::Absent };
                return (Instr::Fold { it: var(&s), x: it, i: Box::new(i), last: Box::new(last) }, env.clone());
            }
            return self.gen_instr(depth - 1, env);
        }
        if r < 96 {
            // new
            if self.streams_on() && self.chance(0.6) {
                let s = if !env.streams.is_empty() && self.chance(0.5) { env.streams.choose(self.rng).cloned().unwrap() } else { self.sname("$") };
                let mut eb = env.clone();
                if !eb.streams.contains(&s) {
                    eb.streams.push(s.clone());
                }
                // canons of the outer stream are not visible for the inner one: keep them (they are scalars-like)
                let (body, _) = self.gen_instr(depth - 1, &eb);
                return (Instr::New { n: s, i: Box::new(body) }, env.clone());
            }
            if self.profile == Profile::Full && self.chance(0.25) {
                let m = if !env.maps.is_empty() && self.chance(0.5) { env.maps.choose(self.rng).cloned().unwrap() } else { self.sname("%") };
                let mut eb = env.clone();
                if !eb.maps.contains(&m) {
                    eb.maps.push(m.clone());
                }
                let (body, _) = self.gen_instr(depth - 1, &eb);
                return (Instr::New { n: m, i: Box::new(body) }, env.clone());
            }
            let x = self.xname();
            let (body, _) = self.gen_instr(depth - 1, env);
            return (Instr::New { n: x, i: Box::new(body) }, env.clone());
        }
        self.gen_leaf(env)
    }
}
