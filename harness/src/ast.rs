//! Script AST shared with the TLA+ specification (same JSON shape as `AirScript.tla` expects),
//! renderer to AIR text, and a seeded random generator of well-scoped scripts.

use serde::{Deserialize, Serialize};
use serde_json::{json, Value as J};

use crate::peers::Peers;

#[derive(Clone, Debug, Serialize, Deserialize, PartialEq)]
#[serde(tag = "lk")]
pub enum Lens {
    #[serde(rename = "field")]
    Field {
        #[serde(rename = "name")]
        v: String,
    },
    #[serde(rename = "idx")]
    Idx {
        #[serde(rename = "ix")]
        v: u32,
    },
    #[serde(rename = "var")]
    Var {
        #[serde(rename = "x")]
        v: String,
    },
    #[serde(rename = "len")]
    Len,
}

#[derive(Clone, Debug, Serialize, Deserialize, PartialEq)]
#[serde(tag = "o")]
pub enum Opnd {
    /// string / number / bool literal as a tagged value
    #[serde(rename = "lit")]
    Lit { v: J },
    /// a literal peer id, written by model name
    #[serde(rename = "peer")]
    Peer { n: String },
    #[serde(rename = "init")]
    Init,
    #[serde(rename = "empty")]
    EmptyArr,
    /// scalar, canon stream (`#$c`), canon map (`#%c`), stream (`$s`) or map (`%m`) by sigil
    #[serde(rename = "var")]
    Var { n: String, lens: Vec<Lens> },
    #[serde(rename = "lasterr")]
    LastError { lens: Vec<Lens> },
    #[serde(rename = "err")]
    Error { lens: Vec<Lens> },
    #[serde(rename = "ttl")]
    Ttl,
    #[serde(rename = "ts")]
    Timestamp,
}

#[derive(Clone, Debug, Serialize, Deserialize, PartialEq)]
#[serde(tag = "op")]
pub enum Instr {
    #[serde(rename = "call")]
    Call {
        peer: Opnd,
        srv: Opnd,
        #[serde(rename = "fn")]
        func: Opnd,
        args: Vec<Opnd>,
        /// "" = no output, otherwise the variable name with sigil
        out: String,
    },
    #[serde(rename = "seq")]
    Seq { l: Box<Instr>, r: Box<Instr> },
    #[serde(rename = "par")]
    Par { l: Box<Instr>, r: Box<Instr> },
    #[serde(rename = "xor")]
    Xor { l: Box<Instr>, r: Box<Instr> },
    #[serde(rename = "null")]
    Null,
    #[serde(rename = "never")]
    Never,
    /// absent optional instruction (fold without `last`)
    #[serde(rename = "none")]
    Absent,
    #[serde(rename = "fail")]
    Fail { a: Opnd, b: Opnd },
    #[serde(rename = "match")]
    Match { a: Opnd, b: Opnd, i: Box<Instr> },
    #[serde(rename = "mismatch")]
    Mismatch { a: Opnd, b: Opnd, i: Box<Instr> },
    #[serde(rename = "ap")]
    Ap { src: Opnd, dst: String },
    #[serde(rename = "apmap")]
    ApMap { key: Opnd, src: Opnd, dst: String },
    #[serde(rename = "new")]
    New { n: String, i: Box<Instr> },
    #[serde(rename = "fold")]
    Fold { it: Opnd, x: String, i: Box<Instr>, last: Box<Instr> },
    #[serde(rename = "next")]
    Next { x: String },
    #[serde(rename = "canon")]
    Canon { peer: Opnd, s: String, c: String },
}

pub fn lit_s(s: &str) -> Opnd {
    Opnd::Lit { v: json!({"t":"s","s":s,"q":[]}) }
}
pub fn lit_n(n: i64) -> Opnd {
    Opnd::Lit { v: json!({"t":"n","s":n.to_string(),"q":[]}) }
}
pub fn var(n: &str) -> Opnd {
    Opnd::Var { n: n.to_string(), lens: vec![] }
}
pub fn varl(n: &str, lens: Vec<Lens>) -> Opnd {
    Opnd::Var { n: n.to_string(), lens }
}
pub fn peer(n: &str) -> Opnd {
    Opnd::Peer { n: n.to_string() }
}
pub fn seq(l: Instr, r: Instr) -> Instr {
    Instr::Seq { l: Box::new(l), r: Box::new(r) }
}
pub fn par(l: Instr, r: Instr) -> Instr {
    Instr::Par { l: Box::new(l), r: Box::new(r) }
}
pub fn xor(l: Instr, r: Instr) -> Instr {
    Instr::Xor { l: Box::new(l), r: Box::new(r) }
}
pub fn seqs(mut v: Vec<Instr>) -> Instr {
    let mut acc = v.pop().unwrap_or(Instr::Null);
    while let Some(i) = v.pop() {
        acc = seq(i, acc);
    }
    acc
}
pub fn call(p: Opnd, srv: &str, func: &str, args: Vec<Opnd>, out: &str) -> Instr {
    Instr::Call { peer: p, srv: lit_s(srv), func: lit_s(func), args, out: out.to_string() }
}

fn render_lens(lens: &[Lens]) -> String {
    if lens.is_empty() {
        return String::new();
    }
    if lens.len() == 1 && lens[0] == Lens::Len {
        return ".length".to_string();
    }
    let mut s = String::from(".$");
    for l in lens {
        match l {
            Lens::Field { v } => {
                s.push('.');
                s.push_str(v);
            }
            Lens::Idx { v } => s.push_str(&format!(".[{v}]")),
            Lens::Var { v } => s.push_str(&format!(".[{v}]")),
            Lens::Len => s.push_str(".length"),
        }
    }
    s
}

fn render_lit(v: &J) -> String {
    match v["t"].as_str() {
        Some("s") => format!("\"{}\"", v["s"].as_str().unwrap_or("")),
        Some("n") => v["s"].as_str().unwrap_or("0").to_string(),
        Some("b") => v["s"].as_str().unwrap_or("false").to_string(),
        _ => "\"?\"".to_string(),
    }
}

pub fn render_opnd(o: &Opnd, peers: &Peers) -> String {
    match o {
        Opnd::Lit { v } => render_lit(v),
        Opnd::Peer { n } => format!("\"{}\"", peers.id_of(n)),
        Opnd::Init => "%init_peer_id%".into(),
        Opnd::EmptyArr => "[]".into(),
        Opnd::Var { n, lens } => format!("{}{}", n, render_lens(lens)),
        Opnd::LastError { lens } => format!("%last_error%{}", render_lens(lens)),
        Opnd::Error { lens } => format!(":error:{}", render_lens(lens)),
        Opnd::Ttl => "%ttl%".into(),
        Opnd::Timestamp => "%timestamp%".into(),
    }
}

pub fn render(i: &Instr, peers: &Peers) -> String {
    let ro = |o: &Opnd| render_opnd(o, peers);
    match i {
        Instr::Call { peer, srv, func, args, out } => {
            let a: Vec<String> = args.iter().map(ro).collect();
            let o = if out.is_empty() { String::new() } else { format!(" {out}") };
            format!("(call {} ({} {}) [{}]{})", ro(peer), ro(srv), ro(func), a.join(" "), o)
        }
        Instr::Seq { l, r } => format!("(seq {} {})", render(l, peers), render(r, peers)),
        Instr::Par { l, r } => format!("(par {} {})", render(l, peers), render(r, peers)),
        Instr::Xor { l, r } => format!("(xor {} {})", render(l, peers), render(r, peers)),
        Instr::Null => "(null)".into(),
        Instr::Never => "(never)".into(),
        Instr::Absent => String::new(),
        Instr::Fail { a, b } => match b {
            Opnd::EmptyArr => format!("(fail {})", ro(a)),
            _ => format!("(fail {} {})", ro(a), ro(b)),
        },
        Instr::Match { a, b, i } => format!("(match {} {} {})", ro(a), ro(b), render(i, peers)),
        Instr::Mismatch { a, b, i } => format!("(mismatch {} {} {})", ro(a), ro(b), render(i, peers)),
        Instr::Ap { src, dst } => format!("(ap {} {})", ro(src), dst),
        Instr::ApMap { key, src, dst } => format!("(ap ({} {}) {})", ro(key), ro(src), dst),
        Instr::New { n, i } => format!("(new {} {})", n, render(i, peers)),
        Instr::Fold { it, x, i, last } => {
            let l = render(last, peers);
            if l.is_empty() {
                format!("(fold {} {} {})", ro(it), x, render(i, peers))
            } else {
                format!("(fold {} {} {} {})", ro(it), x, render(i, peers), l)
            }
        }
        Instr::Next { x } => format!("(next {x})"),
        Instr::Canon { peer, s, c } => format!("(canon {} {} {})", ro(peer), s, c),
    }
}

pub fn count_nodes(i: &Instr) -> usize {
    match i {
        Instr::Seq { l, r } | Instr::Par { l, r } | Instr::Xor { l, r } => 1 + count_nodes(l) + count_nodes(r),
        Instr::Match { i, .. } | Instr::Mismatch { i, .. } | Instr::New { i, .. } => 1 + count_nodes(i),
        Instr::Fold { i, last, .. } => 1 + count_nodes(i) + count_nodes(last),
        Instr::Absent => 0,
        _ => 1,
    }
}

/// Instruction kinds used by the script (for fragment classification by the wrapper / spec).
pub fn features(i: &Instr, out: &mut std::collections::BTreeSet<String>) {
    let mut opnd = |o: &Opnd, out: &mut std::collections::BTreeSet<String>| match o {
        Opnd::Var { n, lens } => {
            if n.starts_with("#%") {
                out.insert("canonmap_use".into());
            } else if n.starts_with("#$") {
                out.insert("canon_use".into());
            } else if n.starts_with('$') {
                out.insert("stream_use".into());
            } else if n.starts_with('%') {
                out.insert("map_use".into());
            }
            if !lens.is_empty() {
                out.insert("lens".into());
            }
        }
        Opnd::LastError { .. } => {
            out.insert("last_error".into());
        }
        Opnd::Error { .. } => {
            out.insert("error".into());
        }
        Opnd::Ttl | Opnd::Timestamp => {
            out.insert("builtin".into());
        }
        _ => {}
    };
    match i {
        Instr::Call { peer, srv, func, args, out: o } => {
            out.insert("call".into());
            opnd(peer, out);
            opnd(srv, out);
            opnd(func, out);
            for a in args {
                opnd(a, out);
            }
            if o.starts_with('$') {
                out.insert("stream".into());
            }
            if o.starts_with('%') {
                out.insert("map".into());
            }
        }
        Instr::Seq { l, r } => {
            out.insert("seq".into());
            features(l, out);
            features(r, out);
        }
        Instr::Par { l, r } => {
            out.insert("par".into());
            features(l, out);
            features(r, out);
        }
        Instr::Xor { l, r } => {
            out.insert("xor".into());
            features(l, out);
            features(r, out);
        }
        Instr::Null => {
            out.insert("null".into());
        }
        Instr::Never => {
            out.insert("never".into());
        }
        Instr::Absent => {}
        Instr::Fail { a, b } => {
            out.insert("fail".into());
            opnd(a, out);
            opnd(b, out);
        }
        Instr::Match { a, b, i } => {
            out.insert("match".into());
            opnd(a, out);
            opnd(b, out);
            features(i, out);
        }
        Instr::Mismatch { a, b, i } => {
            out.insert("mismatch".into());
            opnd(a, out);
            opnd(b, out);
            features(i, out);
        }
        Instr::Ap { src, dst } => {
            out.insert("ap".into());
            opnd(src, out);
            if dst.starts_with('$') {
                out.insert("stream".into());
            }
        }
        Instr::ApMap { key, src, .. } => {
            out.insert("map".into());
            opnd(key, out);
            opnd(src, out);
        }
        Instr::New { n, i } => {
            out.insert(if n.starts_with('$') { "new_stream".into() } else { "new".into() });
            features(i, out);
        }
        Instr::Fold { it, i, last, .. } => {
            match it {
                Opnd::Var { n, .. } if n.starts_with('$') => {
                    out.insert("fold_stream".into());
                }
                Opnd::Var { n, .. } if n.starts_with('%') => {
                    out.insert("fold_map".into());
                }
                Opnd::Var { n, .. } if n.starts_with('#') => {
                    out.insert("fold_canon".into());
                }
                _ => {
                    out.insert("fold_scalar".into());
                }
            }
            opnd(it, out);
            features(i, out);
            if **last != Instr::Absent {
                out.insert("fold_last".into());
                features(last, out);
            }
        }
        Instr::Next { .. } => {
            out.insert("next".into());
        }
        Instr::Canon { peer, s, c } => {
            opnd(peer, out);
            if s.starts_with('%') {
                out.insert(if c.starts_with('#') { "canon_map".into() } else { "canon_map_scalar".into() });
            } else {
                out.insert("canon".into());
            }
        }
    }
}
