//! Multi-peer simulator around the real `air::execute_air`.
//!
//! State mirrors `AquaNet.tla`: per-peer stored data, every datum a peer produced (`sent`),
//! the never-shrinking set of wanted messages, pending call requests. Steps are the spec's
//! actions (Start / Deliver / HostReturn / DeliverWithResults / HostReturnBogus); each step is
//! recorded as one NDJSON `run` event with the projected outcome.

use air_interpreter_interface::{CallRequestsRepr, CallResults, CallResultsRepr, CallServiceResult, RunParameters};
use air_interpreter_interface::{CallArgumentsRepr, TetrapletsRepr};
use air_interpreter_sede::{FromSerialized, ToSerialized};
use fluence_keypair::KeyFormat;
use serde_json::{json, Value as J};
use std::collections::{BTreeMap, BTreeSet, HashMap};

use crate::ast::{self, Instr};
use crate::peers::Peers;
use crate::proj::{self, ArgHashes, Proj};
use crate::services;

#[derive(Clone, Debug)]
pub struct Limits {
    pub air: u64,
    pub particle: u64,
    pub result: u64,
    pub hard: bool,
}

impl Default for Limits {
    fn default() -> Self {
        Limits { air: u64::MAX, particle: u64::MAX, result: u64::MAX, hard: false }
    }
}

#[derive(Clone, Debug)]
pub struct Req {
    pub srv: String,
    pub func: String,
    pub args: Vec<J>,
    pub tets: J,
}

pub static LAST_PANIC: std::sync::Mutex<String> = std::sync::Mutex::new(String::new());

pub struct RawOutcome {
    pub code: i64,
    pub msg: String,
    pub data: Vec<u8>,
    pub next: Vec<String>,
    pub reqs_bytes: Vec<u8>,
    pub flags: [bool; 3],
    pub died: Option<String>,
}

impl RawOutcome {
    pub fn error_message_or<'a>(&'a self, d: &'a str) -> &'a str {
        if self.msg.is_empty() {
            d
        } else {
            &self.msg
        }
    }
}

pub fn run_raw(
    peers: &Peers,
    script: &str,
    prev: &[u8],
    cur: &[u8],
    init: &str,
    me: &str,
    particle: &str,
    lim: &Limits,
    results: &CallResults,
) -> RawOutcome {
    let kp = peers.kp_of(me);
    let params = RunParameters::new(
        peers.id_of(init),
        peers.id_of(me),
        1_700_000_000,
        5_000,
        KeyFormat::Ed25519.into(),
        kp.secret().expect("secret"),
        particle.to_string(),
        lim.air,
        lim.particle,
        lim.result,
        lim.hard,
    );
    let ser = match CallResultsRepr.serialize(results) {
        Ok(s) => s,
        Err(e) => {
            return RawOutcome { code: -1, msg: format!("harness: cannot serialize results: {e}"), data: vec![], next: vec![], reqs_bytes: vec![], flags: [false; 3], died: Some("harness".into()) }
        }
    };
    let (script, prev, cur) = (script.to_string(), prev.to_vec(), cur.to_vec());
    let r = std::panic::catch_unwind(std::panic::AssertUnwindSafe(move || air::execute_air(script, prev, cur, params, ser)));
    match r {
        Ok(o) => RawOutcome {
            code: o.ret_code,
            msg: o.error_message,
            data: o.data,
            next: o.next_peer_pks,
            reqs_bytes: o.call_requests,
            flags: [o.air_size_limit_exceeded, o.particle_size_limit_exceeded, o.call_result_size_limit_exceeded],
            died: None,
        },
        Err(e) => {
            let m = if let Some(s) = e.downcast_ref::<String>() {
                s.clone()
            } else if let Some(s) = e.downcast_ref::<&str>() {
                s.to_string()
            } else {
                "panic".to_string()
            };
            RawOutcome { code: -1, msg: m.clone(), data: vec![], next: vec![], reqs_bytes: vec![], flags: [false; 3], died: Some(format!("panic at {}: {}", LAST_PANIC.lock().map(|g| g.clone()).unwrap_or_default(), truncate(&m, 120))) }
        }
    }
}

pub fn truncate(s: &str, n: usize) -> String {
    // messages of the code under test may embed strings that are not UTF-8 (see C01 known finding)
    let clean = String::from_utf8_lossy(s.as_bytes()).to_string();
    let s = clean.as_str();
    if s.len() <= n {
        s.to_string()
    } else {
        let mut k = n;
        while !s.is_char_boundary(k) {
            k -= 1;
        }
        s[..k].to_string()
    }
}

pub fn decode_requests(bytes: &[u8], peers: &Peers) -> Option<BTreeMap<u32, Req>> {
    let reqs = CallRequestsRepr.deserialize(bytes).ok()?;
    let mut out = BTreeMap::new();
    for (id, r) in reqs.iter() {
        let args: Vec<J> = CallArgumentsRepr.deserialize(&r.arguments).ok()?;
        let tets: Vec<Vec<polyplets::SecurityTetraplet>> = TetrapletsRepr.deserialize(&r.tetraplets).ok()?;
        let tj: Vec<J> = tets
            .iter()
            .map(|v| {
                J::Array(
                    v.iter()
                        .map(|t| json!({"p": peers.name_of(&t.peer_pk), "s": t.service_id, "f": t.function_name, "lens": t.lens}))
                        .collect(),
                )
            })
            .collect();
        out.insert(*id, Req { srv: r.service_id.clone(), func: r.function_name.clone(), args, tets: J::Array(tj) });
    }
    Some(out)
}

pub struct Net<'a> {
    pub peers: &'a Peers,
    pub hid: u64,
    pub ast: Instr,
    pub script: String,
    pub init: String,
    pub particle: String,
    pub names: Vec<String>,
    pub lim: Limits,
    pub store: HashMap<String, Vec<u8>>,
    pub store_digest: HashMap<String, String>,
    pub sent: HashMap<String, Vec<Vec<u8>>>,
    pub sent_digest: HashMap<String, Vec<String>>,
    pub wanted: BTreeSet<(String, usize, String)>,
    pub delivered: BTreeMap<(String, usize, String), u32>,
    pub pending: HashMap<String, BTreeMap<u32, Req>>,
    pub ah: ArgHashes,
    pub step: u64,
    pub probes: bool,
    pub out: Vec<J>,
    pub started: bool,
    pub nruns: u64,
    /// the script never uses a variable that may be undefined when the use is reached (C19d applies)
    pub joinfree: bool,
    /// every run so far returned code 0 or 30000
    pub clean: bool,
    /// every n-th run is re-executed in a fresh process (0 = never)
    pub fresh_every: u64,
}

pub fn hex(b: &[u8]) -> String {
    b.iter().map(|x| format!("{:02x}", x)).collect()
}

pub fn unhex(s: &str) -> Vec<u8> {
    (0..s.len() / 2).map(|i| u8::from_str_radix(&s[2 * i..2 * i + 2], 16).unwrap_or(0)).collect()
}

/// `aqua-harness one <file>`: execute one recorded run (in this fresh process) and print its canonical outcome
pub fn cmd_one(path: &str) -> i32 {
    let peers = Peers::new();
    let j: J = match std::fs::read_to_string(path).ok().and_then(|s| serde_json::from_str(&s).ok()) {
        Some(j) => j,
        None => return 2,
    };
    let mut results = CallResults::new();
    for r in j["results"].as_array().cloned().unwrap_or_default() {
        results.insert(r["id"].as_str().unwrap_or("").to_string(), CallServiceResult { ret_code: r["rc"].as_i64().unwrap_or(0) as i32, result: r["body"].as_str().unwrap_or("").to_string() });
    }
    let o = run_raw(&peers, j["script"].as_str().unwrap_or(""), &unhex(j["prev"].as_str().unwrap_or("")), &unhex(j["cur"].as_str().unwrap_or("")),
        j["init"].as_str().unwrap_or("A"), j["me"].as_str().unwrap_or("A"), j["particle"].as_str().unwrap_or(""), &Limits::default(), &results);
    let pr = proj::project(&o.data, &peers, j["particle"].as_str().unwrap_or(""), &ArgHashes::new());
    let reqs = decode_requests(&o.reqs_bytes, &peers).unwrap_or_default();
    let mut nx: Vec<String> = o.next.iter().map(|p| peers.name_of(p)).collect();
    nx.sort();
    nx.dedup();
    println!("{}", json!({"code": o.code, "msgd": proj::digest_of(&J::String(o.msg.clone())), "digest": pr.digest,
        "reqsd": proj::digest_of(&reqs_json(&reqs, &peers)), "next": nx, "died": o.died.is_some()}));
    0
}

pub fn version_tuple(v: &str) -> J {
    match semver::Version::parse(v) {
        Ok(v) => json!([v.major.min(1 << 30), v.minor.min(1 << 30), v.patch.min(1 << 30), v.pre.as_str()]),
        Err(_) => json!([-1, -1, -1, "unparsable"]),
    }
}

fn reqs_json(reqs: &BTreeMap<u32, Req>, peers: &Peers) -> J {
    J::Array(
        reqs.iter()
            .map(|(id, r)| {
                json!({"id": id, "srv": r.srv, "fn": r.func,
                       "args": r.args.iter().map(|a| proj::tag(a, peers)).collect::<Vec<_>>(),
                       "tets": r.tets})
            })
            .collect(),
    )
}

impl<'a> Net<'a> {
    pub fn new(peers: &'a Peers, hid: u64, ast: Instr, init: &str, names: Vec<String>, particle: &str, lim: Limits) -> Self {
        let script = ast::render(&ast, peers);
        let mut store = HashMap::new();
        let mut sent = HashMap::new();
        let mut sent_digest = HashMap::new();
        let mut pending = HashMap::new();
        let mut store_digest = HashMap::new();
        for n in names.iter().chain(["O".to_string(), "V".to_string()].iter()) {
            store.insert(n.clone(), vec![]);
            sent.insert(n.clone(), vec![]);
            sent_digest.insert(n.clone(), vec![]);
            pending.insert(n.clone(), BTreeMap::new());
            store_digest.insert(n.clone(), String::new());
        }
        Net {
            peers,
            hid,
            ast,
            script,
            init: init.to_string(),
            particle: particle.to_string(),
            names,
            lim,
            store,
            store_digest,
            sent,
            sent_digest,
            wanted: BTreeSet::new(),
            delivered: BTreeMap::new(),
            pending,
            ah: ArgHashes::new(),
            step: 0,
            probes: true,
            out: vec![],
            started: false,
            nruns: 0,
            joinfree: false,
            clean: true,
            fresh_every: 0,
        }
    }

    pub fn reset_record(&self, source: &str, seed: u64) -> J {
        let mut feats = BTreeSet::new();
        ast::features(&self.ast, &mut feats);
        json!({"k":"reset","hid":self.hid,"script":serde_json::to_value(&self.ast).unwrap(),"text":self.script,
               "peers":self.names,"init":self.init,"particle":self.particle,
               "feats": feats.into_iter().collect::<Vec<_>>(),
               "joinfree":self.joinfree,"source":source,"seed":seed.to_string()})
    }

    fn learn_args(&mut self, reqs: &BTreeMap<u32, Req>) {
        for r in reqs.values() {
            if let Ok(c) = air_interpreter_cid::value_to_json_cid(&r.args) {
                let tagged: Vec<J> = r.args.iter().map(|a| proj::tag(a, self.peers)).collect();
                self.ah.map.insert(c.get_inner().to_string(), J::Array(tagged));
            }
        }
    }

    fn rerun_in_fresh_process(&self, me: &str, prev: &[u8], cur: &[u8], results: &CallResults) -> J {
        let res: Vec<J> = results.iter().map(|(k, v)| json!({"id": k, "rc": v.ret_code, "body": v.result})).collect();
        let input = json!({"script": self.script, "prev": hex(prev), "cur": hex(cur), "init": self.init, "me": me,
                           "particle": self.particle, "results": res});
        let path = std::env::temp_dir().join(format!("aqua-harness-one-{}-{}.json", std::process::id(), self.nruns));
        if std::fs::write(&path, input.to_string()).is_err() {
            return json!({"done": false});
        }
        let exe = std::env::current_exe().unwrap_or_default();
        let out = std::process::Command::new(exe).arg("one").arg(&path).output();
        let _ = std::fs::remove_file(&path);
        match out.ok().and_then(|o| serde_json::from_slice::<J>(&o.stdout).ok()) {
            Some(mut j) => {
                j["done"] = json!(true);
                j
            }
            None => json!({"done": false}),
        }
    }

    pub fn project(&self, bytes: &[u8]) -> Proj {
        proj::project(bytes, self.peers, &self.particle, &self.ah)
    }

    fn exec(&self, me: &str, prev: &[u8], cur: &[u8], results: &CallResults) -> RawOutcome {
        run_raw(self.peers, &self.script, prev, cur, &self.init, me, &self.particle, &self.lim, results)
    }

    /// One protocol step on peer `me`.
    /// `cur`: message reference (from, ver) or None; `res`: ids of pending requests to answer;
    /// `bogus`: extra results under ids that are not pending.
    pub fn run(&mut self, kind: &str, me: &str, cur: Option<(String, usize)>, res_ids: &[u32], bogus: &[u32]) -> J {
        self.step += 1;
        self.nruns += 1;
        let prev = self.store.get(me).cloned().unwrap_or_default();
        let cur_bytes: Vec<u8> = match &cur {
            Some((f, v)) => self.sent.get(f).and_then(|s| s.get(*v - 1)).cloned().unwrap_or_default(),
            None => vec![],
        };
        // host results
        let mut results = CallResults::new();
        let mut res_log = vec![];
        let mut consumed = vec![];
        for id in res_ids {
            if let Some(r) = self.pending.get(me).and_then(|p| p.get(id)).cloned() {
                let sr = services::service(&r.srv, &r.func, &r.args);
                res_log.push(json!({"id": id, "rc": sr.ret_code, "body": sr.body, "srv": r.srv, "fn": r.func,
                    "v": match serde_json::from_str::<J>(&sr.body) { Ok(v) => proj::tag(&v, self.peers), Err(_) => proj::special("raw", &sr.body) }}));
                if sr.ret_code == 0 {
                    if let Ok(v) = serde_json::from_str::<J>(&sr.body) {
                        let jv: air_interpreter_value::JValue = v.clone().into();
                        if let Ok(c) = air_interpreter_cid::value_to_json_cid(&jv) {
                            self.ah.vals.insert(c.get_inner().to_string(), proj::tag(&v, self.peers));
                        }
                    }
                }
                results.insert(id.to_string(), CallServiceResult { ret_code: sr.ret_code, result: sr.body });
                consumed.push(*id);
            }
        }
        let mut bogus_log = vec![];
        for id in bogus {
            let body = J::String(format!("bogus-{id}")).to_string();
            bogus_log.push(json!({"id": id, "rc": 0, "body": body, "srv": "", "fn": "", "v": proj::special("s", &format!("bogus-{id}"))}));
            results.insert(id.to_string(), CallServiceResult { ret_code: 0, result: body });
        }

        let o = self.exec(me, &prev, &cur_bytes, &results);
        if o.code != 0 && o.code != 30000 {
            self.clean = false;
        }
        let reqs = decode_requests(&o.reqs_bytes, self.peers);
        let reqs_ok = reqs.is_some() || o.reqs_bytes.is_empty();
        let reqs = reqs.unwrap_or_default();
        self.learn_args(&reqs);
        let pr = self.project(&o.data);

        let mut next_names: Vec<String> = o.next.iter().map(|p| self.peers.name_of(p)).collect();
        let next_len = next_names.len();
        next_names.sort();
        next_names.dedup();
        let next_dup = next_names.len() != next_len;

        let eqprev = o.data == prev;

        // ---- probes (leave the simulated state unchanged)
        let mut probes = json!({"idem": [], "rerun": {"done": false}, "rerun_fresh": {"done": false}, "fresh": {"done": false}, "recode": {"done": false}});
        if self.probes && o.died.is_none() && o.code != -1 {
            let none = CallResults::new();
            let mut idem = vec![];
            // only meaningful when the run returned new data
            for (tag, cb) in [("b", cur_bytes.clone()), ("a", prev.clone()), ("c", o.data.clone()), ("0", vec![])] {
                let q = self.exec(me, &o.data, &cb, &none);
                let qp = self.project(&q.data);
                let nreq = decode_requests(&q.reqs_bytes, self.peers).map(|m| m.len()).unwrap_or(0);
                idem.push(json!({"variant": tag, "code": q.code, "td": qp.tdigest, "nreq": nreq, "nnext": q.next.len(), "died": q.died.is_some()}));
            }
            probes["idem"] = J::Array(idem);
            // determinism: same inputs again
            let q = self.exec(me, &prev, &cur_bytes, &results);
            let qp = self.project(&q.data);
            let qreqs = decode_requests(&q.reqs_bytes, self.peers).unwrap_or_default();
            let mut qn: Vec<String> = q.next.iter().map(|p| self.peers.name_of(p)).collect();
            qn.sort();
            qn.dedup();
            probes["rerun"] = json!({"done": true, "code": q.code, "msg_eq": q.msg == o.msg, "digest": qp.digest,
                "reqs_eq": reqs_json(&qreqs, self.peers) == reqs_json(&reqs, self.peers), "next": qn, "flags": q.flags});
            // determinism across processes: the same inputs re-executed in a fresh process (a sample of the runs)
            if self.fresh_every > 0 && self.nruns % self.fresh_every == 0 {
                probes["rerun_fresh"] = self.rerun_in_fresh_process(me, &prev, &cur_bytes, &results);
            }
            // acceptance by a fresh peer as *current* data
            if !o.data.is_empty() {
                let q = run_raw(self.peers, &self.script, &[], &o.data, &self.init, "V", &self.particle, &Limits::default(), &none);
                probes["fresh"] = json!({"done": true, "code": q.code, "died": q.died.is_some(), "msg": truncate(&q.msg, 200)});
            }
            // encodings round trip (C27)
            probes["recode"] = crate::codec::recode_probe(&o.data, &o.reqs_bytes, &results);
        }

        // ---- protocol state update (host contract: store whatever data came back)
        let mut new_ver = 0usize;
        if o.died.is_none() {
            self.store.insert(me.to_string(), o.data.clone());
            self.store_digest.insert(me.to_string(), pr.digest.clone());
            let sd = self.sent_digest.get_mut(me).unwrap();
            let changed = sd.last().map(|d| d != &pr.digest).unwrap_or(true);
            if changed && !o.data.is_empty() {
                sd.push(pr.digest.clone());
                self.sent.get_mut(me).unwrap().push(o.data.clone());
            }
            new_ver = self.sent.get(me).map(|s| s.len()).unwrap_or(0);
            for n in &next_names {
                if new_ver > 0 {
                    self.wanted.insert((me.to_string(), new_ver, n.clone()));
                }
            }
            let pend = self.pending.get_mut(me).unwrap();
            for id in &consumed {
                pend.remove(id);
            }
            for (id, r) in reqs.iter() {
                pend.insert(*id, r.clone());
            }
        }
        if let Some((f, v)) = &cur {
            *self.delivered.entry((f.clone(), *v, me.to_string())).or_insert(0) += 1;
        }

        let sig: Vec<J> = pr.sig.iter().map(|(n, (p, ok))| json!({"n": n, "present": p, "ok": ok})).collect();
        let all_res: Vec<J> = res_log.iter().chain(bogus_log.iter()).cloned().collect();
        let rec = json!({
            "k":"run","hid":self.hid,"step":self.step,"kind":kind,"peer":me,
            "cur": match &cur { Some((f,v)) => json!({"from":f,"ver":v}), None => json!({"from":"-","ver":0}) },
            "res": all_res,
            "res_ids": res_ids, "bogus_ids": bogus,
            "out": {
                "code": o.code.clamp(-1, (1<<31)-1), "msg": truncate(&o.msg, 300), "msgd": proj::digest_of(&J::String(o.msg.clone())),
                "died": o.died.clone().unwrap_or_default(),
                "eqprev": eqprev, "decodes": pr.decodes, "empty": pr.empty, "ver": version_tuple(&pr.version),
                "data": pr.data, "digest": pr.digest, "td": pr.tdigest,
                "next": next_names, "next_dup": next_dup,
                "reqs": reqs_json(&reqs, self.peers), "reqs_ok": reqs_ok, "reqsd": proj::digest_of(&reqs_json(&reqs, self.peers)),
                "flags": o.flags,
                "store_ok": pr.store_ok, "store_ok_repo": pr.store_ok_repo, "refs_ok": pr.refs_ok, "dangling": pr.dangling,
                "sig": sig, "newver": new_ver
            },
            "probes": probes
        });
        self.out.push(rec.clone());
        rec
    }

    pub fn start(&mut self) -> J {
        self.started = true;
        let init = self.init.clone();
        self.run("start", &init, None, &[], &[])
    }

    /// Observer merges: deliver a chosen set of data, in a given order, to a fresh observer `O`
    /// (empty previous data each time); used for C08 and C19d. Returns projections per order.
    pub fn observer_fold(&self, msgs: &[(String, usize)], grouped: bool) -> (Proj, Vec<i64>) {
        let none = CallResults::new();
        let mut codes = vec![];
        if grouped && msgs.len() > 2 {
            // merge the tail at a second observer first, then deliver the result
            let mut acc2: Vec<u8> = vec![];
            for (f, v) in &msgs[1..] {
                let cur = self.sent.get(f).and_then(|s| s.get(*v - 1)).cloned().unwrap_or_default();
                let q = run_raw(self.peers, &self.script, &acc2, &cur, &self.init, "V", &self.particle, &Limits::default(), &none);
                codes.push(q.code);
                acc2 = q.data;
            }
            let (f, v) = &msgs[0];
            let cur = self.sent.get(f).and_then(|s| s.get(*v - 1)).cloned().unwrap_or_default();
            let q = run_raw(self.peers, &self.script, &[], &cur, &self.init, "O", &self.particle, &Limits::default(), &none);
            codes.push(q.code);
            let q2 = run_raw(self.peers, &self.script, &q.data, &acc2, &self.init, "O", &self.particle, &Limits::default(), &none);
            codes.push(q2.code);
            return (self.project(&q2.data), codes);
        }
        let mut acc: Vec<u8> = vec![];
        for (f, v) in msgs {
            let cur = self.sent.get(f).and_then(|s| s.get(*v - 1)).cloned().unwrap_or_default();
            let q = run_raw(self.peers, &self.script, &acc, &cur, &self.init, "O", &self.particle, &Limits::default(), &none);
            codes.push(q.code);
            acc = q.data;
        }
        (self.project(&acc), codes)
    }

    pub fn quiescent(&self) -> bool {
        self.started
            && self.wanted.iter().all(|m| self.delivered.get(m).copied().unwrap_or(0) > 0)
            && self.pending.values().all(|p| p.is_empty())
    }
}
