//! Conformance harness binding the TLA+ specification in /verif/spec to the real AquaVM code in /repo.
//! Sub-commands:
//!   net  --in <histories.ndjson> --out <trace.ndjson>   simulate multi-peer histories (explicit or random schedules)
//!   (more sub-commands are added by the other modules)

mod ast;
mod attack;
mod codec;
mod driver;
mod fncases;
mod gen;
mod net;
mod peers;
mod proj;
mod services;

use rand::rngs::StdRng;
use rand::{Rng, SeedableRng};
use serde_json::{json, Value as J};
use std::io::{BufRead, BufWriter, Write};

pub fn arg(args: &[String], name: &str) -> Option<String> {
    args.iter().position(|a| a == name).and_then(|i| args.get(i + 1)).cloned()
}

fn profile_of(s: &str) -> gen::Profile {
    match s {
        "core" => gen::Profile::Core,
        "stream" => gen::Profile::Stream,
        "seqfrag" => gen::Profile::SeqFrag,
        _ => gen::Profile::Full,
    }
}

fn cmd_net(args: &[String]) -> i32 {
    let inp = arg(args, "--in").expect("--in");
    let outp = arg(args, "--out").expect("--out");
    let probes = arg(args, "--probes").map(|s| s != "0").unwrap_or(true);
    let peers = peers::Peers::new();
    let f = std::fs::File::open(&inp).expect("open input");
    let mut w = BufWriter::new(std::fs::File::create(&outp).expect("create output"));
    let mut nhist = 0u64;
    let mut nruns = 0u64;
    let mut nskipped = 0u64;
    let mut nevents = 0u64;
    for line in std::io::BufReader::new(f).lines() {
        let line = line.expect("read");
        if line.trim().is_empty() {
            continue;
        }
        let h: J = match serde_json::from_str(&line) {
            Ok(v) => v,
            Err(e) => {
                eprintln!("bad history line: {e}");
                return 2;
            }
        };
        let hid = h["hid"].as_u64().unwrap_or(nhist + 1);
        let seed = h["seed"].as_u64().unwrap_or(hid);
        let mut rng = StdRng::seed_from_u64(seed);
        let (names, init): (Vec<String>, String) = if let Some(p) = h["peers"].as_array() {
            (p.iter().filter_map(|x| x.as_str().map(|s| s.to_string())).collect(), h["init"].as_str().unwrap_or("A").to_string())
        } else {
            let np = h["gen"]["npeers"].as_u64().unwrap_or(3) as usize;
            (peers::NAMES[..np.min(5)].iter().map(|s| s.to_string()).collect(), "A".to_string())
        };
        let script: ast::Instr = if h.get("script").is_some() {
            match serde_json::from_value(h["script"].clone()) {
                Ok(a) => a,
                Err(e) => {
                    eprintln!("bad script in history {hid}: {e}");
                    return 2;
                }
            }
        } else {
            let g = &h["gen"];
            let mut gg = gen::Gen::new(
                &mut rng,
                names.clone(),
                &init,
                profile_of(g["profile"].as_str().unwrap_or("full")),
                g["budget"].as_i64().unwrap_or(24) as i32,
            );
            gg.joins = g["joins"].as_bool().unwrap_or(true);
            gg.gen(g["depth"].as_u64().unwrap_or(4) as u32)
        };
        // several particle ids within one harness process (signing state must not leak between particles)
        let particle = h["particle"].as_str().map(|s| s.to_string()).unwrap_or_else(|| format!("particle-{}", hid % 3 + 1));
        let mut n = net::Net::new(&peers, hid, script, &init, names, &particle, net::Limits::default());
        n.probes = probes;
        n.fresh_every = h["fresh_every"].as_u64().unwrap_or(0);
        n.joinfree = h.get("gen").map(|g| !g["joins"].as_bool().unwrap_or(true)).unwrap_or(false) || h["joinfree"].as_bool().unwrap_or(false);
        let source = if h.get("steps").is_some() { "explicit" } else { "random" };
        n.out.push(n.reset_record(h["source"].as_str().unwrap_or(source), seed));
        let st = if let Some(steps) = h["steps"].as_array() {
            driver::run_explicit(&mut n, steps)
        } else {
            let ms = h["max_steps"].as_u64().unwrap_or(40) as u32;
            let dup = h["dup"].as_f64().unwrap_or(0.25);
            driver::run_random(&mut n, &mut rng, ms, dup)
        };
        if h["observe"].as_bool().unwrap_or(false) {
            driver::observer_probe(&mut n, &mut rng, true);
            if rng.gen_bool(0.5) {
                driver::observer_probe(&mut n, &mut rng, false);
            }
        }
        nskipped += st.skipped;
        nruns += n.nruns;
        nhist += 1;
        for rec in &n.out {
            serde_json::to_writer(&mut w, rec).expect("write");
            w.write_all(b"\n").expect("write");
            nevents += 1;
        }
    }
    w.flush().expect("flush");
    println!("{}", json!({"histories": nhist, "runs": nruns, "skipped_steps": nskipped, "events": nevents}));
    0
}

fn main() {
    let args: Vec<String> = std::env::args().collect();
    // keep the code under test quiet
    std::panic::set_hook(Box::new(|info| {
        if std::env::var("HARNESS_BT").is_ok() {
            eprintln!("PANIC {info}\n{}", std::backtrace::Backtrace::force_capture());
        }
        if let Some(l) = info.location() {
            if let Ok(mut g) = net::LAST_PANIC.lock() {
                *g = format!("{}:{}", l.file().rsplit("/repo/").next().unwrap_or(l.file()), l.line());
            }
        }
    }));
    let code = match args.get(1).map(|s| s.as_str()) {
        Some("net") => cmd_net(&args[2..]),
        Some("one") => net::cmd_one(args.get(2).map(|s| s.as_str()).unwrap_or("")),
        Some("fn") => fncases::cmd_fn(&args[2..]),
        Some("attack") => attack::cmd_attack(&args[2..]),
        _ => {
            eprintln!("usage: aqua-harness net --in <histories.ndjson> --out <trace.ndjson>");
            2
        }
    };
    std::process::exit(code);
}
