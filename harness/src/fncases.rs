//! Function-level cases (C21-C28): TLC enumerates the case space of a decision procedure
//! (spec/FnSpec.tla), this module executes every case on the real code and records what it observed;
//! TLC then validates the records against the specification's expected decision.

use air_interpreter_data::{InterpreterData, InterpreterDataEnvelope, Versions};
use air_interpreter_interface::{CallResults, CallServiceResult};
use serde_json::{json, Value as J};
use std::borrow::Cow;
use std::io::{BufRead, BufWriter, Write};

use crate::ast::{self, Instr};
use crate::net::{self, Limits};
use crate::peers::Peers;
use crate::proj;

struct Base {
    script: String,
    a2: Vec<u8>,
    b1: Vec<u8>,
    b_req_id: u32,
    b_result: String,
}

/// A small real history that provides honest data: S1 = seq(call A, call B [x], call A [y]).
fn base(peers: &Peers) -> Base {
    let s1 = ast::seqs(vec![
        ast::call(ast::peer("A"), "t", "f1", vec![], "x"),
        ast::call(ast::peer("B"), "t", "f2", vec![ast::var("x")], "y"),
        ast::call(ast::peer("A"), "t", "f3", vec![ast::var("y")], ""),
    ]);
    let mut n = net::Net::new(peers, 0, s1, "A", vec!["A".into(), "B".into()], "particle-1", Limits::default());
    n.probes = false;
    n.start();
    n.run("return", "A", None, &[1], &[]);
    n.run("deliver", "B", Some(("A".into(), 2)), &[], &[]);
    let a2 = n.sent["A"][1].clone();
    let b1 = n.sent["B"][0].clone();
    let (id, req) = n.pending["B"].iter().next().map(|(i, r)| (*i, r.clone())).expect("B has a pending request");
    let sr = crate::services::service(&req.srv, &req.func, &req.args);
    Base { script: n.script.clone(), a2, b1, b_req_id: id, b_result: sr.body }
}

fn envelope_with_version(bytes: &[u8], ver: &semver::Version, garbage_inner: bool) -> Vec<u8> {
    let env = InterpreterDataEnvelope::try_from_slice(bytes).expect("honest data decodes");
    let inner: Vec<u8> = if garbage_inner { b"\x00\x01garbage-not-rkyv".to_vec() } else { env.inner_data.to_vec() };
    let e2 = InterpreterDataEnvelope { versions: Versions::new(ver.clone()), inner_data: Cow::from(inner) };
    e2.serialize().expect("serialize envelope")
}

fn outcome_json(o: &net::RawOutcome, prev: &[u8], peers: &Peers, salt: &str) -> J {
    let p = proj::project(&o.data, peers, salt, &proj::ArgHashes::new());
    let nreq = net::decode_requests(&o.reqs_bytes, peers).map(|m| m.len()).unwrap_or(0);
    json!({"code": o.code.clamp(-1, (1 << 31) - 1), "died": o.died.clone().unwrap_or_default(), "eqprev": o.data == prev,
           "nnext": o.next.len(), "nreq": nreq, "flags": o.flags, "digest": p.digest, "td": p.tdigest,
           "msgd": proj::digest_of(&J::String(o.msg.clone()))})
}

fn case_version(c: &J, b: &Base, peers: &Peers) -> J {
    let pre = c["pre"].as_str().unwrap_or("");
    let build = c["build"].as_str().unwrap_or("");
    let mut vs = format!("{}.{}.{}", c["maj"], c["min"], c["pat"]);
    if !pre.is_empty() {
        vs.push('-');
        vs.push_str(pre);
    }
    if !build.is_empty() {
        vs.push('+');
        vs.push_str(build);
    }
    let ver = semver::Version::parse(&vs).expect("case version parses");
    let cur: Vec<u8> = match c["inner"].as_str().unwrap_or("valid") {
        "empty" => vec![],
        "undecodable" => envelope_with_version(&b.a2, &ver, true),
        _ => envelope_with_version(&b.a2, &ver, false),
    };
    let prev: Vec<u8> = if c["prev"].as_str() == Some("real") { b.b1.clone() } else { vec![] };
    let none = CallResults::new();
    let o = net::run_raw(peers, &b.script, &prev, &cur, "A", "B", "particle-1", &Limits::default(), &none);
    // reference: the same run with an *empty data envelope* of the current version as current data
    let empty_env = InterpreterDataEnvelope::new(air::interpreter_version().clone()).serialize().expect("empty envelope");
    let r = net::run_raw(peers, &b.script, &prev, &empty_env, "A", "B", "particle-1", &Limits::default(), &none);
    let oj = outcome_json(&o, &prev, peers, "particle-1");
    let rj = outcome_json(&r, &prev, peers, "particle-1");
    json!({"out": oj, "same_as_empty_data": oj["code"] == rj["code"] && oj["td"] == rj["td"] && oj["nreq"] == rj["nreq"] && oj["nnext"] == rj["nnext"]})
}

fn limit_value(kind: &str, size: u64) -> u64 {
    match kind {
        "zero" => 0,
        "below" => size.saturating_sub(1),
        "at" => size,
        "above" => size + 1,
        _ => u64::MAX,
    }
}

fn case_limits(c: &J, b: &Base, peers: &Peers) -> J {
    let mut results = CallResults::new();
    let with_result = c["with_result"].as_bool().unwrap_or(true);
    if with_result {
        results.insert(b.b_req_id.to_string(), CallServiceResult { ret_code: 0, result: b.b_result.clone() });
    }
    let with_cur = c["with_cur"].as_bool().unwrap_or(true);
    let cur: Vec<u8> = if with_cur { b.a2.clone() } else { vec![] };
    let sizes = [b.script.len() as u64, cur.len() as u64, if with_result { b.b_result.len() as u64 } else { 0 }];
    let lim = Limits {
        air: limit_value(c["air"].as_str().unwrap_or("max"), sizes[0]),
        particle: limit_value(c["particle"].as_str().unwrap_or("max"), sizes[1]),
        result: limit_value(c["result"].as_str().unwrap_or("max"), sizes[2]),
        hard: c["hard"].as_bool().unwrap_or(false),
    };
    let o = net::run_raw(peers, &b.script, &b.b1, &cur, "A", "B", "particle-1", &lim, &results);
    let u = net::run_raw(peers, &b.script, &b.b1, &cur, "A", "B", "particle-1", &Limits::default(), &results);
    let oj = outcome_json(&o, &b.b1, peers, "particle-1");
    let uj = outcome_json(&u, &b.b1, peers, "particle-1");
    let same = oj["code"] == uj["code"] && oj["digest"] == uj["digest"] && oj["nreq"] == uj["nreq"] && oj["nnext"] == uj["nnext"] && oj["msgd"] == uj["msgd"];
    json!({"out": oj, "same_as_unlimited": same, "unlimited_code": uj["code"], "sizes": {"air": sizes[0] > 0, "particle": sizes[1] > 0, "result": sizes[2] > 0}})
}

/// preparation pipeline: which step fails first
fn case_prep(c: &J, b: &Base, peers: &Peers) -> J {
    let mut results = CallResults::new();
    results.insert(b.b_req_id.to_string(), CallServiceResult { ret_code: 0, result: b.b_result.clone() });
    let ver = air::interpreter_version().clone();
    let cur: Vec<u8> = match c["cur"].as_str().unwrap_or("ok") {
        "corrupt_outer" => {
            let mut d = b.a2.clone();
            for x in d.iter_mut().take(6) {
                *x = 0xc1;
            }
            d
        }
        "old_version" => envelope_with_version(&b.a2, &semver::Version::new(0, 40, 0), false),
        "corrupt_inner" => envelope_with_version(&b.a2, &ver, true),
        "bad_store" => tamper_json(&b.a2, &|dj| {
            if let Some(o) = dj["cid_info"]["value_store"].as_object_mut() {
                for (_k, v) in o.iter_mut() {
                    *v = J::String("\"tampered\"".into());
                }
            }
        }),
        "bad_sig" => tamper_json(&b.a2, &|dj| {
            // drop every signature: the first attributed result has no signer
            dj["signatures"] = json!({});
        }),
        _ => b.a2.clone(),
    };
    let script = if c["script"].as_str() == Some("unparsable") { "(seq (call".to_string() } else { b.script.clone() };
    let sizes = (script.len() as u64, cur.len() as u64, b.b_result.len() as u64);
    let lim = Limits {
        air: if c["air_ex"].as_bool().unwrap_or(false) { sizes.0 - 1 } else { u64::MAX },
        particle: if c["part_ex"].as_bool().unwrap_or(false) { sizes.1 - 1 } else { u64::MAX },
        result: if c["results"].as_str() == Some("too_big") { sizes.2 - 1 } else { u64::MAX },
        hard: c["hard"].as_bool().unwrap_or(false),
    };
    let o = run_raw_ext(peers, &script, &b.b1, &cur, "B", &lim, &results, c["results"].as_str() == Some("undecodable"), c["key"].as_str() == Some("bad"));
    json!({"out": outcome_json(&o, &b.b1, peers, "particle-1")})
}

fn tamper_json(bytes: &[u8], f: &dyn Fn(&mut J)) -> Vec<u8> {
    let env = InterpreterDataEnvelope::try_from_slice(bytes).expect("honest envelope");
    let data = InterpreterData::try_from_slice(&env.inner_data).expect("honest inner");
    let mut dj = serde_json::to_value(&data).expect("json");
    f(&mut dj);
    let t: InterpreterData = serde_json::from_value(dj).expect("typed");
    InterpreterDataEnvelope::from_execution_result(t.trace, t.cid_info, t.signatures, t.last_call_request_id, env.versions.interpreter_version.clone())
        .serialize()
        .expect("serialize")
}

/// like net::run_raw, with optionally undecodable call results / an invalid key format
fn run_raw_ext(peers: &Peers, script: &str, prev: &[u8], cur: &[u8], me: &str, lim: &Limits, results: &CallResults, bad_results: bool, bad_key: bool) -> net::RawOutcome {
    use air_interpreter_interface::{CallResultsRepr, RunParameters};
    use air_interpreter_sede::ToSerialized;
    let kp = peers.kp_of(me);
    let params = RunParameters::new(
        peers.id_of("A"),
        peers.id_of(me),
        1_700_000_000,
        5_000,
        if bad_key { 200 } else { fluence_keypair::KeyFormat::Ed25519.into() },
        kp.secret().expect("secret"),
        "particle-1".to_string(),
        lim.air,
        lim.particle,
        lim.result,
        lim.hard,
    );
    let mut ser = CallResultsRepr.serialize(results).expect("ser");
    if bad_results {
        let mut v = ser.to_vec();
        for x in v.iter_mut().skip(2).take(4) {
            *x = 0xc1;
        }
        ser = v.into();
    }
    let (s, p, c) = (script.to_string(), prev.to_vec(), cur.to_vec());
    match std::panic::catch_unwind(std::panic::AssertUnwindSafe(move || air::execute_air(s, p, c, params, ser))) {
        Ok(o) => net::RawOutcome {
            code: o.ret_code,
            msg: o.error_message,
            data: o.data,
            next: o.next_peer_pks,
            reqs_bytes: o.call_requests,
            flags: [o.air_size_limit_exceeded, o.particle_size_limit_exceeded, o.call_result_size_limit_exceeded],
            died: None,
        },
        Err(_) => net::RawOutcome { code: -1, msg: String::new(), data: vec![], next: vec![], reqs_bytes: vec![], flags: [false; 3], died: Some("panic".into()) },
    }
}

/// lens case: value v (tagged) bound to scalar x via a service, path applied in a call argument under xor
fn case_lens(c: &J, peers: &Peers) -> J {
    let v = proj::untag(&c["value"], peers);
    let path: Vec<ast::Lens> = serde_json::from_value(c["path"].clone()).unwrap_or_default();
    let kv = c.get("kvar").map(|k| proj::untag(k, peers));
    let a = peers.id_of("A");
    let carrier = c.get("carrier").and_then(|x| x.as_str()).unwrap_or("scalar");
    // values handed out by the "val" service, by function name
    let mut vals: std::collections::BTreeMap<String, J> = std::collections::BTreeMap::new();
    vals.insert("k".into(), kv.clone().unwrap_or(J::Null));
    let mut setup = String::new();
    let mut closing = 0;
    let subject = match carrier {
        "canon" => {
            // the elements of the array become the values of a stream, canonicalized
            for (i, e) in v.as_array().cloned().unwrap_or_default().into_iter().enumerate() {
                vals.insert(format!("e{i}"), e);
                setup += &format!(r#"(seq (seq (call "{a}" ("val" "e{i}") [] e{i}) (ap e{i} $s)) "#);
                closing += 1;
            }
            setup += &format!(r#"(seq (canon "{a}" $s #$c) "#);
            closing += 1;
            "#$c"
        }
        "map" => {
            // the object {key: [values]} becomes a stream map with one pair per value, canonicalized
            for (k, arr) in v.as_object().cloned().unwrap_or_default().into_iter() {
                let key = if !k.is_empty() && k.chars().all(|ch| ch.is_ascii_digit()) { k.clone() } else { format!("\"{k}\"") };
                for (j, e) in arr.as_array().cloned().unwrap_or_default().into_iter().enumerate() {
                    vals.insert(format!("m{k}x{j}"), e);
                    setup += &format!(r#"(seq (seq (call "{a}" ("val" "m{k}x{j}") [] m{k}x{j}) (ap ({key} m{k}x{j}) %m)) "#);
                    closing += 1;
                }
            }
            setup += &format!(r#"(seq (canon "{a}" %m #%c) "#);
            closing += 1;
            "#%c"
        }
        _ => {
            vals.insert("x".into(), v.clone());
            setup += &format!(r#"(seq (call "{a}" ("val" "x") [] x) "#);
            closing += 1;
            "x"
        }
    };
    let lens_txt = ast::render_opnd(&ast::varl(subject, path), peers);
    let script = format!(
        r#"(seq (call "{a}" ("val" "k") [] k) {setup}(xor (call "{a}" ("out" "ok") [{lens_txt}]) (call "{a}" ("out" "err") [:error:.$.error_code])){close})"#,
        close = ")".repeat(closing)
    );
    let mut prev: Vec<u8> = vec![];
    let mut results = CallResults::new();
    let mut observed = json!({"branch": "none", "arg": proj::special("?", ""), "code": 0});
    for _round in 0..24 {
        let o = net::run_raw(peers, &script, &prev, &[], "A", "A", "particle-1", &Limits::default(), &results);
        if o.died.is_some() {
            return json!({"branch": "died", "arg": proj::special("?", ""), "code": -1, "run_code": -1});
        }
        observed["run_code"] = json!(o.code.clamp(-1, (1 << 31) - 1));
        let reqs = net::decode_requests(&o.reqs_bytes, peers).unwrap_or_default();
        results = CallResults::new();
        prev = o.data.clone();
        if reqs.is_empty() {
            break;
        }
        for (id, r) in reqs.iter() {
            let res = match (r.srv.as_str(), r.func.as_str()) {
                ("val", name) => vals.get(name).cloned().unwrap_or(J::Null),
                ("out", "ok") => {
                    observed["branch"] = json!("ok");
                    observed["arg"] = proj::tag(r.args.first().unwrap_or(&J::Null), peers);
                    J::Null
                }
                ("out", "err") => {
                    observed["branch"] = json!("err");
                    observed["code"] = json!(r.args.first().and_then(|x| x.as_i64()).unwrap_or(-1));
                    J::Null
                }
                _ => J::Null,
            };
            results.insert(id.to_string(), CallServiceResult { ret_code: 0, result: res.to_string() });
        }
    }
    observed
}

fn case_parse(c: &J, peers: &Peers) -> J {
    let text = if let Some(t) = c.get("text").and_then(|t| t.as_str()) {
        t.to_string()
    } else {
        match serde_json::from_value::<Instr>(c["script"].clone()) {
            Ok(a) => ast::render(&a, peers),
            Err(e) => return json!({"res": "badcase", "err": e.to_string()}),
        }
    };
    let r = std::panic::catch_unwind(|| air_parser::parse(&text).map(|_| ()).map_err(|e| e.len()));
    match r {
        Ok(Ok(())) => json!({"res": "ok"}),
        Ok(Err(_)) => json!({"res": "err"}),
        Err(_) => json!({"res": "panic"}),
    }
}

fn case_beautify(c: &J, peers: &Peers) -> J {
    let a: Instr = match serde_json::from_value(c["script"].clone()) {
        Ok(a) => a,
        Err(e) => return json!({"res": "badcase", "err": e.to_string(), "lines": []}),
    };
    let text = ast::render(&a, peers);
    let r = std::panic::catch_unwind(|| air_beautifier::beautify_to_string(&text));
    match r {
        Ok(Ok(s)) => {
            // the independent reader: split into lines, measure indentation in steps, keep the text
            let mut s = s;
            for (id, name) in peers.by_id.iter() {
                s = s.replace(id, name);
            }
            let raw: Vec<&str> = s.lines().collect();
            let indents: Vec<usize> = raw.iter().map(|l| l.len() - l.trim_start().len()).collect();
            let step = indents.iter().copied().filter(|i| *i > 0).min().unwrap_or(4);
            let lines: Vec<J> = raw
                .iter()
                .zip(indents.iter())
                .map(|(l, i)| json!({"d": if i % step == 0 { (i / step) as i64 } else { -1 }, "text": l.trim()}))
                .collect();
            json!({"res": "ok", "lines": lines})
        }
        Ok(Err(_)) => json!({"res": "err", "lines": []}),
        Err(_) => json!({"res": "panic", "lines": []}),
    }
}

fn b32_encode(data: &[u8]) -> String {
    const A: &[u8] = b"abcdefghijklmnopqrstuvwxyz234567";
    let mut out = String::new();
    let (mut bits, mut nbits) = (0u32, 0);
    for b in data {
        bits = (bits << 8) | *b as u32;
        nbits += 8;
        while nbits >= 5 {
            nbits -= 5;
            out.push(A[((bits >> nbits) & 31) as usize] as char);
        }
    }
    if nbits > 0 {
        out.push(A[((bits << (5 - nbits)) & 31) as usize] as char);
    }
    out
}

fn varint(mut v: u64) -> Vec<u8> {
    let mut o = vec![];
    loop {
        let b = (v & 0x7f) as u8;
        v >>= 7;
        if v == 0 {
            o.push(b);
            break;
        }
        o.push(b | 0x80);
    }
    o
}

/// CIDv1 text built independently of the code under test
fn make_cid(codec: u64, hash_code: u64, digest: &[u8]) -> String {
    let mut raw = vec![1u8];
    raw.extend(varint(codec));
    raw.extend(varint(hash_code));
    raw.extend(varint(digest.len() as u64));
    raw.extend_from_slice(digest);
    format!("b{}", b32_encode(&raw))
}

fn cid_values(peers: &Peers) -> Vec<J> {
    let _ = peers;
    vec![
        json!("test"), json!([1, 2, 3]), json!(1), json!({"key": 42}), json!({"b": [1, {"z": null, "a": true}], "a": "x"}),
        json!(null), json!([]), json!({"a": 1.5, "c": -7, "b": "\u{00e9}\n"}),
    ]
}

/// C25: canonical content ids and the verification decision table
fn case_cid(c: &J, peers: &Peers) -> J {
    use sha2::Digest;
    let vals = cid_values(peers);
    let v = vals[(c["value"].as_u64().unwrap_or(0) as usize) % vals.len()].clone();
    let other = vals[((c["value"].as_u64().unwrap_or(0) as usize) + 1) % vals.len()].clone();
    if c["kind"].as_str() == Some("canon") {
        // the id of a value must not depend on how the value was built
        let jv: air_interpreter_value::JValue = v.clone().into();
        let direct = air_interpreter_cid::value_to_json_cid(&jv).map(|c| c.get_inner().to_string()).unwrap_or_default();
        let route = c["route"].as_str().unwrap_or("direct");
        let built: air_interpreter_value::JValue = match route {
            "reparsed" => serde_json::from_str(&v.to_string()).unwrap_or(air_interpreter_value::JValue::Null),
            "pretty_reparsed" => serde_json::from_str(&serde_json::to_string_pretty(&v).unwrap_or_default()).unwrap_or(air_interpreter_value::JValue::Null),
            "reversed_insertion" => rebuild(&v, true),
            "forward_insertion" => rebuild(&v, false),
            "via_std_value" => air_interpreter_value::JValue::from(&v),
            _ => jv.clone(),
        };
        let cid2 = air_interpreter_cid::value_to_json_cid(&built).map(|c| c.get_inner().to_string()).unwrap_or_default();
        let ov: air_interpreter_value::JValue = other.into();
        let cid_other = air_interpreter_cid::value_to_json_cid(&ov).map(|c| c.get_inner().to_string()).unwrap_or_default();
        // independent: blake3 over the canonical (sorted keys, compact) serde_json text
        let indep = make_cid(0x0200, 0x1e, fluence_blake3::hash(v.to_string().as_bytes()).as_bytes());
        return json!({"same_as_direct": cid2 == direct, "differs_from_other": direct != cid_other, "matches_independent": direct == indep});
    }
    let text = v.to_string();
    let bytes = text.as_bytes();
    let b3 = fluence_blake3::hash(bytes).as_bytes().to_vec();
    let s2 = sha2::Sha256::digest(bytes).to_vec();
    let ob3 = fluence_blake3::hash(other.to_string().as_bytes()).as_bytes().to_vec();
    let cid = match c["mutation"].as_str().unwrap_or("") {
        "exact_blake3" => make_cid(0x0200, 0x1e, &b3),
        "exact_sha2" => make_cid(0x0200, 0x12, &s2),
        "sha3_code" => make_cid(0x0200, 0x16, &s2),
        "identity_code" => make_cid(0x0200, 0x00, bytes),
        "truncated_blake3" => make_cid(0x0200, 0x1e, &b3[..16]),
        "truncated_sha2" => make_cid(0x0200, 0x12, &s2[..20]),
        "bitflip" => {
            let mut d = b3.clone();
            d[31] ^= 1;
            make_cid(0x0200, 0x1e, &d)
        }
        "first_bitflip" => {
            let mut d = s2.clone();
            d[0] ^= 0x80;
            make_cid(0x0200, 0x12, &d)
        }
        "other_value" => make_cid(0x0200, 0x1e, &ob3),
        "codec_raw" => make_cid(0x55, 0x1e, &b3),
        "codec_cbor" => make_cid(0x71, 0x12, &s2),
        "garbage" => "this-is-not-a-cid".to_string(),
        "empty" => String::new(),
        "swapped_hash_code" => make_cid(0x0200, 0x12, &b3),
        _ => make_cid(0x0200, 0x1e, &b3),
    };
    let typed = {
        let cidt: air_interpreter_cid::CID<J> = air_interpreter_cid::CID::new(cid.clone());
        let vv = v.clone();
        match std::panic::catch_unwind(move || air_interpreter_cid::verify_value(&cidt, &vv).is_ok()) {
            Ok(true) => "accept",
            Ok(false) => "reject",
            Err(_) => "panic",
        }
    };
    let raw = {
        let cidr: air_interpreter_cid::CID<J> = air_interpreter_cid::CID::new(cid.clone());
        let t = text.clone();
        match std::panic::catch_unwind(move || air_interpreter_cid::verify_raw_value(&cidr, t.as_bytes()).is_ok()) {
            Ok(true) => "accept",
            Ok(false) => "reject",
            Err(_) => "panic",
        }
    };
    json!({"typed": typed, "raw": raw})
}

fn rebuild(v: &J, reversed: bool) -> air_interpreter_value::JValue {
    use air_interpreter_value::JValue;
    match v {
        J::Object(o) => {
            let mut kv: Vec<(&String, &J)> = o.iter().collect();
            if reversed {
                kv.reverse();
            }
            JValue::object_from_pairs(kv.into_iter().map(|(k, x)| (k.as_str(), rebuild(x, reversed))))
        }
        J::Array(a) => JValue::array_from_iter(a.iter().map(|x| rebuild(x, reversed))),
        other => JValue::from(other),
    }
}

/// C27: codec tags and envelope table
fn case_codec(c: &J, b: &Base, peers: &Peers) -> J {
    use air_interpreter_interface::{CallRequestsRepr, CallResultsRepr};
    use air_interpreter_sede::{FromSerialized, ToSerialized};
    let _ = peers;
    let payload = c["payload"].as_str().unwrap_or("results");
    if payload == "envelope" {
        let mut d = b.a2.clone();
        let env = InterpreterDataEnvelope::try_from_slice(&d).expect("honest envelope");
        let inner_len = env.inner_data.len();
        let n = d.len();
        if c["outer"].as_str() == Some("corrupt") {
            // damage the msgpack map header / version strings at the front
            for i in 0..6.min(n) {
                d[i] = 0xc1;
            }
        }
        if c["inner"].as_str() == Some("corrupt") {
            // damage the middle of the inner (rkyv) data, which sits at the end of the envelope
            let start = n - inner_len / 2 - 8;
            for i in start..(start + 16).min(n) {
                d[i] ^= 0xff;
            }
        }
        let versions = InterpreterDataEnvelope::try_get_versions(&d).is_ok();
        let full = match InterpreterDataEnvelope::try_from_slice(&d) {
            Ok(e) => {
                let d2 = e.inner_data.to_vec();
                std::panic::catch_unwind(move || InterpreterData::try_from_slice(&d2).is_ok()).unwrap_or(false)
            }
            Err(_) => false,
        };
        return json!({"versions_readable": versions, "decodes": full});
    }
    let mut results = CallResults::new();
    results.insert("1".into(), CallServiceResult { ret_code: 0, result: "[1,2]".into() });
    results.insert("7".into(), CallServiceResult { ret_code: 3, result: "\"e\"".into() });
    let good: Vec<u8> = if payload == "results" {
        CallResultsRepr.serialize(&results).expect("ser").to_vec()
    } else {
        // a real request map from the base history
        let o = net::run_raw(peers, &b.script, &[], &b.a2, "A", "B", "particle-1", &Limits::default(), &CallResults::new());
        o.reqs_bytes
    };
    let body: Vec<u8> = good[2..].to_vec();
    let mut bytes: Vec<u8> = match c["tag"].as_str().unwrap_or("right") {
        "right" => good.clone(),
        "json" => [vec![0x80u8, 0x04], body.clone()].concat(),
        "cbor" => [vec![0x71u8], body.clone()].concat(),
        "absent" => body.clone(),
        "truncated" => vec![good[0]],
        "empty" => vec![],
        _ => good.clone(),
    };
    if c["body"].as_str() == Some("corrupt") && bytes.len() > 6 {
        let n = bytes.len();
        bytes[n - 3] = 0xc1;
        bytes[2] = 0xc1;
    }
    let ok = if payload == "results" {
        match CallResultsRepr.deserialize(&bytes) {
            Ok(m) => m.len() == 2 && m.get("1").map(|r| r.result == "[1,2]").unwrap_or(false) && m.get("7").map(|r| r.ret_code == 3).unwrap_or(false),
            Err(_) => false,
        }
    } else {
        match (CallRequestsRepr.deserialize(&bytes), CallRequestsRepr.deserialize(&good)) {
            (Ok(m), Ok(g)) => m == g,
            _ => false,
        }
    };
    json!({"decoded_exactly": ok})
}

/// C18: a failing (or not failing) instruction K in a context, run uncaught (U) and caught by an xor (C)
fn xor_kind_text(kind: &str, a: &str) -> String {
    match kind {
        "service_error" => format!(r#"(call "{a}" ("e" "boom") [])"#),
        "fail_literal" => r#"(fail 7 "custom")"#.to_string(),
        "match_ne" => r#"(match arr "nope" (null))"#.to_string(),
        "mismatch_eq" => r#"(mismatch arr arr (null))"#.to_string(),
        "lens_field_missing" => format!(r#"(call "{a}" ("t" "k") [obj.$.zzz])"#),
        "lens_index_oob" => format!(r#"(call "{a}" ("t" "k") [arr.$.[9]])"#),
        "lens_on_scalar" => format!(r#"(call "{a}" ("t" "k") [str.$.a])"#),
        "ap_lens_missing" => r#"(ap obj.$.zzz q)"#.to_string(),
        "fold_non_array" => r#"(fold str it (seq (null) (next it)))"#.to_string(),
        "non_string_triplet" => r#"(call arr ("t" "k") [])"#.to_string(),
        "length_of_non_array" => format!(r#"(call "{a}" ("t" "k") [str.length])"#),
        "not_init_after_new" => format!(r#"(new nn (call "{a}" ("t" "k") [nn]))"#),
        "fail_last_error_clean" => r#"(fail %last_error%)"#.to_string(),
        // not failing
        "ok_call" => format!(r#"(call "{a}" ("t" "fine") [arr])"#),
        "never" => "(never)".to_string(),
        // the producer is a remote peer that never answers in this single-peer run: the consumer waits
        "join_wait" => format!(r#"(par (call "remote_peer_that_never_answers" ("t" "r") [] w) (call "{a}" ("t" "k") [w]))"#),
        "null" => "(null)".to_string(),
        // uncatchable
        "shadowing" => format!(r#"(call "{a}" ("t" "again") [] str)"#),
        _ => "(null)".to_string(),
    }
}

fn xor_context(ctx: &str, body: &str, a: &str) -> String {
    match ctx {
        "plain" => body.to_string(),
        "seq_after" => format!(r#"(seq (call "{a}" ("t" "before") []) {body})"#),
        "par_left" => format!(r#"(par {body} (null))"#),
        "par_both" => format!(r#"(par {body} (fail 3 "other"))"#),
        "fold_body" => format!(r#"(fold arr2 it2 (seq {body} (next it2)))"#),
        "new_scope" => format!(r#"(new zz {body})"#),
        "seq_then" => format!(r#"(seq {body} (call "{a}" ("out" "after") []))"#),
        _ => body.to_string(),
    }
}

fn run_to_quiet(script: &str, peers: &Peers) -> J {
    let mut prev: Vec<u8> = vec![];
    let mut results = CallResults::new();
    let mut seen: Vec<J> = vec![];
    let mut first_err = json!({"code": 0, "msg": ""});
    let mut last_code = 0i64;
    for _round in 0..10 {
        let o = net::run_raw(peers, script, &prev, &[], "A", "A", "particle-1", &Limits::default(), &results);
        if let Some(d) = o.died {
            return json!({"died": d, "code": -1, "msg": "", "calls": seen, "first_err": first_err});
        }
        last_code = o.code;
        if o.code != 0 && first_err["code"] == 0 {
            first_err = json!({"code": o.code.clamp(-1, (1 << 31) - 1), "msg": net::truncate(&o.error_message_or(&o.msg), 400)});
        }
        let reqs = net::decode_requests(&o.reqs_bytes, peers).unwrap_or_default();
        results = CallResults::new();
        prev = o.data.clone();
        if reqs.is_empty() {
            break;
        }
        for (id, r) in reqs.iter() {
            seen.push(json!({"srv": r.srv, "fn": r.func, "args": r.args.iter().map(|x| proj::tag(x, peers)).collect::<Vec<_>>()}));
            let sr = crate::services::service(&r.srv, &r.func, &r.args);
            results.insert(id.to_string(), CallServiceResult { ret_code: sr.ret_code, result: sr.body });
        }
    }
    json!({"died": "", "code": last_code.clamp(-1, (1 << 31) - 1), "calls": seen, "first_err": first_err})
}

fn case_xor(c: &J, peers: &Peers) -> J {
    let a = peers.id_of("A");
    let k = xor_kind_text(c["kind"].as_str().unwrap_or(""), &a);
    let ctx = c["ctx"].as_str().unwrap_or("plain");
    // variables every kind may use
    let prelude = format!(
        r#"(seq (call "{a}" ("l2" "arr") [] arr) (seq (call "{a}" ("o" "obj") [] obj) (seq (call "{a}" ("id" "str") ["s"] str) (seq (call "{a}" ("l2" "arr2") [] arr2) BODY))))"#
    );
    let catch = format!(r#"(call "{a}" ("out" "caught") [:error:.$.error_code :error:.$.message %last_error%.$.error_code])"#);
    let u = prelude.replace("BODY", &xor_context(ctx, &k, &a));
    let cc = prelude.replace("BODY", &xor_context(ctx, &format!("(xor {k} {catch})"), &a));
    let uo = run_to_quiet(&u, peers);
    let co = run_to_quiet(&cc, peers);
    let caught: Vec<J> = co["calls"].as_array().cloned().unwrap_or_default().into_iter().filter(|x| x["fn"] == "caught").collect();
    let after_u = uo["calls"].as_array().map(|v| v.iter().any(|x| x["fn"] == "after")).unwrap_or(false);
    let after_c = co["calls"].as_array().map(|v| v.iter().any(|x| x["fn"] == "after")).unwrap_or(false);
    let (ccode, cmsg) = match caught.first() {
        Some(x) => (x["args"][0].clone(), x["args"][1]["s"].as_str().unwrap_or("").to_string()),
        None => (proj::special("?", ""), String::new()),
    };
    let umsg = uo["first_err"]["msg"].as_str().unwrap_or("").to_string();
    json!({"u_died": uo["died"], "c_died": co["died"], "u_code": uo["first_err"]["code"], "u_final": uo["code"], "c_final": co["code"],
           "c_first_err": co["first_err"]["code"],
           "ncaught": caught.len(), "caught_code": ccode, "msg_equal": !caught.is_empty() && cmsg == umsg,
           "u_msg_contains_caught_msg": !caught.is_empty() && umsg.contains(&cmsg) && !cmsg.is_empty(),
           "after_u": after_u, "after_c": after_c})
}

/// execute a (parseable) generated script on a single peer, answering every request, and watch for death
fn case_runscript(c: &J, peers: &Peers) -> J {
    let a: Instr = match serde_json::from_value(c["script"].clone()) {
        Ok(a) => a,
        Err(e) => return json!({"exec_died": "", "rounds": 0, "res": format!("badcase {e}")}),
    };
    let text = ast::render(&a, peers);
    let mut prev: Vec<u8> = vec![];
    let mut results = CallResults::new();
    let mut last_code = 0;
    for round in 0..8 {
        let o = net::run_raw(peers, &text, &prev, &[], "A", "A", "particle-1", &Limits::default(), &results);
        if let Some(d) = o.died {
            return json!({"exec_died": d, "rounds": round, "res": "died"});
        }
        last_code = o.code;
        let reqs = net::decode_requests(&o.reqs_bytes, peers).unwrap_or_default();
        results = CallResults::new();
        prev = o.data;
        if reqs.is_empty() {
            break;
        }
        for (id, r) in reqs.iter() {
            let sr = crate::services::service("l2", &r.func, &r.args);
            results.insert(id.to_string(), CallServiceResult { ret_code: sr.ret_code, result: sr.body });
        }
    }
    json!({"exec_died": "", "rounds": 0, "res": "ok", "code": last_code.clamp(-1, (1 << 31) - 1)})
}

/// token-level mutation of a catalogue script text, then every text entry point
fn case_text(c: &J, peers: &Peers) -> J {
    let (script, _) = crate::attack::base_script(c["base"].as_str().unwrap_or("SM1"));
    let text = ast::render(&script, peers);
    // tokens: parentheses, brackets and whitespace-separated words
    let mut toks: Vec<String> = vec![];
    let mut cur = String::new();
    let mut in_str = false;
    for ch in text.chars() {
        if in_str {
            cur.push(ch);
            if ch == '"' {
                in_str = false;
                toks.push(std::mem::take(&mut cur));
            }
        } else if ch == '"' {
            if !cur.is_empty() {
                toks.push(std::mem::take(&mut cur));
            }
            cur.push(ch);
            in_str = true;
        } else if ch == '(' || ch == ')' || ch == '[' || ch == ']' {
            if !cur.is_empty() {
                toks.push(std::mem::take(&mut cur));
            }
            toks.push(ch.to_string());
        } else if ch.is_whitespace() {
            if !cur.is_empty() {
                toks.push(std::mem::take(&mut cur));
            }
        } else {
            cur.push(ch);
        }
    }
    if !cur.is_empty() {
        toks.push(cur);
    }
    let n = toks.len();
    let pos = (c["pos"].as_u64().unwrap_or(0) as usize * n / 16).min(n.saturating_sub(1));
    match c["op"].as_str().unwrap_or("") {
        "drop" => {
            toks.remove(pos);
        }
        "dup" => {
            let t = toks[pos].clone();
            toks.insert(pos, t);
        }
        "swap" => {
            if pos + 1 < n {
                toks.swap(pos, pos + 1);
            }
        }
        "open" => toks.insert(pos, "(".into()),
        "close" => toks.insert(pos, ")".into()),
        "trunc" => toks.truncate(pos),
        "quote" => toks.insert(pos, "\"".into()),
        "deep" => {
            let mut pre: Vec<String> = (0..2000).flat_map(|_| vec!["(".to_string(), "seq".to_string()]).collect();
            pre.extend(toks.clone());
            toks = pre;
        }
        "verydeep" => {
            // balanced: (seq (seq ... <script> (null)) (null))
            let depth = 100_000;
            let mut pre: Vec<String> = (0..depth).flat_map(|_| vec!["(".to_string(), "seq".to_string()]).collect();
            pre.extend(toks.clone());
            for _ in 0..depth {
                pre.extend(["(".to_string(), "null".to_string(), ")".to_string(), ")".to_string()]);
            }
            toks = pre;
        }
        "long" => toks.insert(pos, "x".repeat(200_000)),
        "lens" => toks.insert(pos, "x.$.[0].a.[1].!.$.$".into()),
        "num" => toks.insert(pos, "99999999999999999999999999999999".into()),
        _ => {}
    }
    let mutated = toks.join(" ");
    let m1 = mutated.clone();
    let parse = match std::panic::catch_unwind(move || air_parser::parse(&m1).is_ok()) {
        Ok(true) => "ok",
        Ok(false) => "err",
        Err(_) => "panic",
    };
    let m2 = mutated.clone();
    let beaut = match std::panic::catch_unwind(move || air_beautifier::beautify_to_string(&m2).is_ok()) {
        Ok(true) => "ok",
        Ok(false) => "err",
        Err(_) => "panic",
    };
    let none = CallResults::new();
    let o = net::run_raw(peers, &mutated, &[], &[], "A", "A", "particle-1", &Limits::default(), &none);
    json!({"parse": parse, "beautify": beaut, "exec_died": o.died.clone().unwrap_or_default(), "exec_code": o.code.clamp(-1, (1 << 31) - 1)})
}

/// byte-level mutation of honest data, fed to the data entry points (execute as current data, pretty-printing)
fn case_bytes(c: &J, b: &Base, peers: &Peers) -> J {
    let mut d = b.a2.clone();
    let n = d.len();
    let pos = (c["pos"].as_u64().unwrap_or(0) as usize * n / 64).min(n.saturating_sub(1));
    match c["op"].as_str().unwrap_or("") {
        "flip" => d[pos] ^= 0xff,
        "zero" => d[pos] = 0,
        "ff" => d[pos] = 0xff,
        "trunc" => d.truncate(pos),
        "dup" => {
            let tail = d[pos..].to_vec();
            d.extend(tail);
        }
        "ins" => {
            for _ in 0..8 {
                d.insert(pos, 0xff);
            }
        }
        _ => {}
    }
    let none = CallResults::new();
    let o = net::run_raw(peers, &b.script, &b.b1, &d, "A", "B", "particle-1", &Limits::default(), &none);
    let d2 = d.clone();
    let mut pretty_msg = String::new();
    let hr = match std::panic::catch_unwind(move || air::to_human_readable_data(d2).is_ok()) {
        Ok(true) => "ok",
        Ok(false) => "err",
        Err(e) => {
            pretty_msg = e.downcast_ref::<String>().cloned().or_else(|| e.downcast_ref::<&str>().map(|s| s.to_string())).unwrap_or_default();
            "panic"
        }
    };
    json!({"exec_died": o.died.clone().unwrap_or_default(), "exec_code": o.code.clamp(-1, (1 << 31) - 1), "eqprev": o.data == b.b1,
           "pretty": hr, "pretty_msg": net::truncate(&pretty_msg, 200)})
}

pub fn cmd_fn(args: &[String]) -> i32 {
    let inp = crate::arg(args, "--in").expect("--in");
    let outp = crate::arg(args, "--out").expect("--out");
    let peers = Peers::new();
    let b = base(&peers);
    let f = std::fs::File::open(&inp).expect("open input");
    let mut w = BufWriter::new(std::fs::File::create(&outp).expect("create output"));
    let mut n = 0u64;
    let skip = crate::arg(args, "--skip").and_then(|s| s.parse::<u64>().ok()).unwrap_or(0);
    let journal = crate::arg(args, "--journal");
    for line in std::io::BufReader::new(f).lines() {
        let line = line.expect("read");
        if line.trim().is_empty() {
            continue;
        }
        if n < skip {
            n += 1;
            continue;
        }
        if let Some(jp) = &journal {
            let _ = std::fs::write(jp, format!("{}\n{}\n", n + 1, line));
        }
        let c: J = match serde_json::from_str(&line) {
            Ok(v) => v,
            Err(e) => {
                eprintln!("bad case line: {e}");
                return 2;
            }
        };
        let obs = match c["family"].as_str().unwrap_or("") {
            "version" => case_version(&c, &b, &peers),
            "limits" => case_limits(&c, &b, &peers),
            "prep" => case_prep(&c, &b, &peers),
            "lens" => case_lens(&c, &peers),
            "parse" => case_parse(&c, &peers),
            "beautify" => case_beautify(&c, &peers),
            "text" => case_text(&c, &peers),
            "runscript" => case_runscript(&c, &peers),
            "xor" => case_xor(&c, &peers),
            "cid" => case_cid(&c, &peers),
            "codec" => case_codec(&c, &b, &peers),
            "bytes" => case_bytes(&c, &b, &peers),
            other => json!({"res": format!("unknown family {other}")}),
        };
        n += 1;
        serde_json::to_writer(&mut w, &json!({"k": "fn", "n": n, "case": c, "obs": obs})).expect("write");
        w.write_all(b"\n").expect("write");
        w.flush().expect("flush");
    }
    w.flush().expect("flush");
    println!("{}", json!({"cases": n}));
    0
}
