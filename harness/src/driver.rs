//! Drives a simulated history: either an explicit schedule (from TLC or from a replay file)
//! or a seeded random one, plus observer probes (C08, C19d).

use rand::rngs::StdRng;
use rand::seq::SliceRandom;
use rand::Rng;
use serde_json::{json, Value as J};
use std::collections::BTreeMap;

use crate::net::Net;

pub struct Stats {
    pub skipped: u64,
}

/// Apply one explicit step. Returns false when the step cannot be resolved on the implementation
/// (counted as drift by the caller, never a verdict).
pub fn apply_step(net: &mut Net, st: &J) -> bool {
    match st["a"].as_str().unwrap_or("") {
        "start" => {
            if net.started {
                return false;
            }
            net.start();
            true
        }
        "deliver" => {
            let from = st["from"].as_str().unwrap_or("").to_string();
            let ver = st["ver"].as_u64().unwrap_or(0) as usize;
            let to = st["to"].as_str().unwrap_or("").to_string();
            if ver == 0 || net.sent.get(&from).map(|s| s.len()).unwrap_or(0) < ver || !net.store.contains_key(&to) {
                return false;
            }
            if st["strict"].as_bool().unwrap_or(false) && !net.wanted.contains(&(from.clone(), ver, to.clone())) {
                return false;
            }
            let ids: Vec<u32> = st["res"].as_array().map(|a| a.iter().filter_map(|x| x.as_u64().map(|v| v as u32)).collect()).unwrap_or_default();
            let ids: Vec<u32> = ids.into_iter().filter(|i| net.pending.get(&to).map(|p| p.contains_key(i)).unwrap_or(false)).collect();
            let kind = if ids.is_empty() { "deliver" } else { "both" };
            net.run(kind, &to, Some((from, ver)), &ids, &[]);
            true
        }
        "return" => {
            let p = st["peer"].as_str().unwrap_or("").to_string();
            let ids: Vec<u32> = st["ids"].as_array().map(|a| a.iter().filter_map(|x| x.as_u64().map(|v| v as u32)).collect()).unwrap_or_default();
            let known: Vec<u32> = ids.iter().copied().filter(|i| net.pending.get(&p).map(|q| q.contains_key(i)).unwrap_or(false)).collect();
            if known.is_empty() || known.len() != ids.len() {
                return false;
            }
            net.run("return", &p, None, &known, &[]);
            true
        }
        "bogus" => {
            let p = st["peer"].as_str().unwrap_or("").to_string();
            if !net.store.contains_key(&p) {
                return false;
            }
            let id = st["id"].as_u64().unwrap_or(9999) as u32;
            if net.pending.get(&p).map(|q| q.contains_key(&id)).unwrap_or(false) {
                return false;
            }
            let ids: Vec<u32> = st["ids"].as_array().map(|a| a.iter().filter_map(|x| x.as_u64().map(|v| v as u32)).collect()).unwrap_or_default();
            let known: Vec<u32> = ids.iter().copied().filter(|i| net.pending.get(&p).map(|q| q.contains_key(i)).unwrap_or(false)).collect();
            net.run("bogus", &p, None, &known, &[id]);
            true
        }
        "obs" => {
            let set: Vec<(String, usize)> = st["set"]
                .as_array()
                .map(|a| a.iter().map(|x| (x[0].as_str().unwrap_or("").to_string(), x[1].as_u64().unwrap_or(0) as usize)).collect())
                .unwrap_or_default();
            if set.iter().any(|(f, v)| *v == 0 || net.sent.get(f).map(|s| s.len()).unwrap_or(0) < *v) || set.len() > 4 {
                return false;
            }
            observer_on_set(net, set, false, false).is_some()
        }
        _ => false,
    }
}

pub fn run_explicit(net: &mut Net, steps: &[J]) -> Stats {
    let mut skipped = 0;
    for st in steps {
        if !apply_step(net, st) {
            skipped += 1;
        }
    }
    Stats { skipped }
}

pub fn run_random(net: &mut Net, rng: &mut StdRng, max_steps: u32, dup_prob: f64) -> Stats {
    net.start();
    let mut steps = 1;
    while steps < max_steps {
        // candidate actions
        let undelivered: Vec<(String, usize, String)> = net.wanted.iter().filter(|m| net.delivered.get(*m).copied().unwrap_or(0) == 0).cloned().collect();
        let delivered: Vec<(String, usize, String)> = net.wanted.iter().filter(|m| net.delivered.get(*m).copied().unwrap_or(0) > 0).cloned().collect();
        let pend: Vec<String> = {
            let mut v: Vec<String> = net.pending.iter().filter(|(_, p)| !p.is_empty()).map(|(n, _)| n.clone()).collect();
            v.sort();
            v
        };
        if undelivered.is_empty() && pend.is_empty() {
            // quiescent: sometimes continue with duplicates / stale deliveries / bogus results
            if delivered.is_empty() || !rng.gen_bool(dup_prob) {
                break;
            }
        }
        let r = rng.gen_range(0..100);
        if r < 4 && !net.names.is_empty() {
            // result under an id nobody asked for, optionally together with real ones
            let p = net.names.choose(rng).cloned().unwrap();
            let id = 900 + rng.gen_range(0..50);
            let ids: Vec<u32> = if rng.gen_bool(0.5) { net.pending.get(&p).map(|q| q.keys().copied().take(1).collect()).unwrap_or_default() } else { vec![] };
            net.run("bogus", &p, None, &ids, &[id]);
        } else if !pend.is_empty() && (undelivered.is_empty() || r < 50) {
            let p = pend.choose(rng).cloned().unwrap();
            let ids_all: Vec<u32> = net.pending.get(&p).map(|q| q.keys().copied().collect()).unwrap_or_default();
            let mut ids: Vec<u32> = ids_all.iter().copied().filter(|_| rng.gen_bool(0.6)).collect();
            if ids.is_empty() {
                ids.push(*ids_all.choose(rng).unwrap());
            }
            // sometimes together with a particle
            let to_me: Vec<&(String, usize, String)> = net.wanted.iter().filter(|m| m.2 == p).collect();
            if !to_me.is_empty() && rng.gen_bool(0.25) {
                let m = (*to_me.choose(rng).unwrap()).clone();
                net.run("both", &p, Some((m.0, m.1)), &ids, &[]);
            } else {
                net.run("return", &p, None, &ids, &[]);
            }
        } else if !undelivered.is_empty() && (delivered.is_empty() || !rng.gen_bool(dup_prob)) {
            let m = undelivered.choose(rng).cloned().unwrap();
            net.run("deliver", &m.2.clone(), Some((m.0, m.1)), &[], &[]);
        } else if !delivered.is_empty() {
            // duplicate / stale delivery (possibly of an old version, possibly to another participant)
            let m = delivered.choose(rng).cloned().unwrap();
            net.run("deliver", &m.2.clone(), Some((m.0, m.1)), &[], &[]);
        } else {
            break;
        }
        steps += 1;
    }
    Stats { skipped: 0 }
}

fn permutations(n: usize) -> Vec<Vec<usize>> {
    fn rec(cur: &mut Vec<usize>, used: &mut Vec<bool>, n: usize, out: &mut Vec<Vec<usize>>) {
        if cur.len() == n {
            out.push(cur.clone());
            return;
        }
        for i in 0..n {
            if !used[i] {
                used[i] = true;
                cur.push(i);
                rec(cur, used, n, out);
                cur.pop();
                used[i] = false;
            }
        }
    }
    let mut out = vec![];
    rec(&mut vec![], &mut vec![false; n], n, &mut out);
    out
}

/// Observer probe: a set D of data (<= 4) merged at a fresh observer in every order and in two groupings.
/// Results are grouped by distinct trace projection; the spec compares the distinct ones pairwise.
pub fn observer_probe(net: &mut Net, rng: &mut StdRng, finals_only: bool) -> Option<J> {
    let mut all: Vec<(String, usize)> = vec![];
    for n in &net.names {
        let k = net.sent.get(n).map(|s| s.len()).unwrap_or(0);
        if k == 0 {
            continue;
        }
        if finals_only {
            all.push((n.clone(), k));
        } else {
            for v in 1..=k {
                all.push((n.clone(), v));
            }
        }
    }
    if all.len() < 2 {
        return None;
    }
    all.shuffle(rng);
    let complete = finals_only && all.len() <= 4;
    all.truncate(4);
    all.sort();
    observer_on_set(net, all, finals_only, complete)
}

pub fn observer_on_set(net: &mut Net, all: Vec<(String, usize)>, finals_only: bool, complete: bool) -> Option<J> {
    let quiescent = net.quiescent();
    let perms = permutations(all.len());
    let mut groups: BTreeMap<String, (J, Vec<J>, Vec<i64>)> = BTreeMap::new();
    let mut evals = 0;
    for (pi, perm) in perms.iter().enumerate() {
        let msgs: Vec<(String, usize)> = perm.iter().map(|i| all[*i].clone()).collect();
        for grouped in [false, true] {
            if grouped && (msgs.len() < 3 || pi % 3 != 0) {
                continue;
            }
            let (p, codes) = net.observer_fold(&msgs, grouped);
            evals += 1;
            let order = json!({"ord": msgs.iter().map(|(f, v)| json!([f, v])).collect::<Vec<_>>(), "g": grouped, "codes": codes});
            let maxcode = codes.iter().copied().max().unwrap_or(0);
            let e = groups.entry(p.tdigest.clone()).or_insert((p.data.clone(), vec![], vec![]));
            if e.1.len() < 3 {
                e.1.push(order);
            }
            e.2.push(maxcode.clamp(-1, (1 << 31) - 1));
        }
    }
    net.step += 1;
    let res: Vec<J> = groups
        .into_iter()
        .map(|(d, (data, orders, codes))| {
            let mut c = codes.clone();
            c.sort();
            c.dedup();
            json!({"td": d, "data": data, "orders": orders, "codes": c, "cnt": codes.len()})
        })
        .collect();
    let rec = json!({"k":"obs","hid":net.hid,"step":net.step,"set":all.iter().map(|(f,v)| json!([f,v])).collect::<Vec<_>>(),
        "finals": finals_only, "complete": complete, "quiescent": quiescent && complete && net.joinfree && net.clean, "evals": evals, "results": res});
    net.out.push(rec.clone());
    Some(rec)
}
