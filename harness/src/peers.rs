//! Model peer names <-> deterministic key pairs <-> peer ids.

use fluence_keypair::{KeyFormat, KeyPair};
use std::collections::HashMap;

pub const NAMES: [&str; 8] = ["A", "B", "C", "D", "E", "O", "M", "V"];

pub struct Peers {
    pub by_name: HashMap<String, (KeyPair, String)>,
    pub by_id: HashMap<String, String>,
}

impl Peers {
    pub fn new() -> Self {
        let mut by_name = HashMap::new();
        let mut by_id = HashMap::new();
        for (i, n) in NAMES.iter().enumerate() {
            let kp = KeyPair::from_secret_key(vec![(i + 1) as u8; 32], KeyFormat::Ed25519).expect("keypair");
            let id = kp.get_peer_id().to_string();
            by_id.insert(id.clone(), n.to_string());
            by_name.insert(n.to_string(), (kp, id));
        }
        Peers { by_name, by_id }
    }
    pub fn id_of(&self, name: &str) -> String {
        match self.by_name.get(name) {
            Some((_, id)) => id.clone(),
            None => format!("unknown-peer-{name}"),
        }
    }
    pub fn kp_of(&self, name: &str) -> &KeyPair {
        &self.by_name.get(name).expect("known peer").0
    }
    pub fn name_of(&self, id: &str) -> String {
        if id.is_empty() {
            return String::new();
        }
        match self.by_id.get(id) {
            Some(n) => n.clone(),
            None => format!("?{id}"),
        }
    }
    pub fn is_id(&self, s: &str) -> bool {
        self.by_id.contains_key(s)
    }
}
